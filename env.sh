# Offline Go environment (see DESIGN.md section 2). GOSUMDB stays default: the
# go.sum files in /repo and /verif/engine cover every module used, and
# GOTOOLCHAIN=auto switches to the cached go1.25.11 toolchain.
export GOFLAGS=-mod=mod
export GOPROXY=off
export CGO_ENABLED=1
