package syncer

import (
	"context"
	"fmt"
	"testing"

	"github.com/PowerDNS/lightningstream/snapshot"
	"github.com/PowerDNS/simpleblob/backends/memory"
)

// Custom scenario replay for syncer.(*Syncer).LoadOnce/post.ret_below_uncap
// (shadow / non-native schema): LoadOnce's write transaction stays empty, the
// application commits once before LoadOnce reads env.Info(); the id of that
// commit is returned as already synced. At the next load localChanged is
// false, the write is not captured and shadowToMain removes it.
func TestLsvcReplay(t *testing.T) {
	ctx := context.Background()
	st := memory.New()
	s, env := createInstance(t, "a", st, false)
	setKey(t, env, "foo", "captured", false)
	synced, err := s.SendOnce(ctx, env) // captures "foo" into the shadow DBI and publishes it
	if err != nil {
		t.Fatal(err)
	}
	VerifYield = func(point string) {
		if point == "LoadOnce.afterTxn" {
			setKey(t, env, "bar", "application write", false)
		}
	}
	upd := snapshot.Update{Snapshot: &snapshot.Snapshot{FormatVersion: 3, CompatVersion: 1}}
	txnID, localChanged, err := s.LoadOnce(ctx, env, "b", upd, synced)
	VerifYield = nil
	fmt.Println("LSVC-REPLAY: synced before:", synced, "returned:", txnID, "localChanged:", localChanged, "err:", err)
	before, _ := dumpData(env, false)
	// the sync loop now holds txnID as lastSyncedTxnID; the next remote snapshot arrives
	_, localChanged2, err2 := s.LoadOnce(ctx, env, "b", upd, txnID)
	after, _ := dumpData(env, false)
	fmt.Println("LSVC-REPLAY: application data before the next load:", before, "after:", after, "localChanged:", localChanged2, "err:", err2)
	if _, had := before["bar"]; had {
		if _, has := after["bar"]; !has && err2 == nil {
			fmt.Println("LSVC-REPLAY: CONFIRMED (a committed application write was removed by shadowToMain although no newer version exists)")
		}
	}
}
