package storage

import (
	"context"
	"fmt"
	"testing"
	"time"

	"github.com/PowerDNS/simpleblob/backends/memory"
)

// Custom replay for storage.GetGlobal/safety.panic#0: a caller asks for the
// global storage before it has been set; it is set shortly afterwards.
func TestLsvcReplay(t *testing.T) {
	_ = context.Background()
	go func() {
		time.Sleep(200 * time.Millisecond)
		SetGlobal(memory.New())
	}()
	func() {
		defer func() {
			if r := recover(); r != nil {
				fmt.Println("LSVC-REPLAY: PANIC:", r)
				fmt.Println("LSVC-REPLAY: CONFIRMED (GetGlobal panics although the storage has been set)")
			}
		}()
		st := GetGlobal()
		fmt.Println("LSVC-REPLAY: no panic, handle is nil:", st == nil)
	}()
}
