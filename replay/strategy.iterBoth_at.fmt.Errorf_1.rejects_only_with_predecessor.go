package strategy

import (
	"fmt"
	"testing"

	"github.com/PowerDNS/lightningstream/lmdbenv"
	"github.com/PowerDNS/lmdb-go/lmdb"
)

// Custom scenario replay for strategy.iterBoth/at.fmt.Errorf#1: a strictly
// increasing sequence of 4-byte integer keys 0, 1, 2 is merged into an empty
// MDB_INTEGERKEY DBI with IterUpdate. Valid input must not be rejected.
func TestLsvcReplay(t *testing.T) {
	err := lmdbenv.TestEnv(func(env *lmdb.Env) error {
		return env.Update(func(txn *lmdb.Txn) error {
			dbi, err := txn.OpenDBI("ints", lmdb.Create|LMDBIntegerKeyFlag)
			if err != nil {
				return err
			}
			it := NewTestIterator([]lmdbenv.KVString{
				{Key: string([]byte{0, 0, 0, 0}), Val: "a"},
				{Key: string([]byte{1, 0, 0, 0}), Val: "b"},
				{Key: string([]byte{2, 0, 0, 0}), Val: "c"},
			}, 0)
			return IterUpdate(txn, dbi, it)
		})
	})
	fmt.Println("LSVC-REPLAY: IterUpdate on integer keys 0,1,2 returned:", err)
	if err != nil {
		fmt.Println("LSVC-REPLAY: CONFIRMED (sorted integer-key input starting with key 0 is rejected)")
	}
}
