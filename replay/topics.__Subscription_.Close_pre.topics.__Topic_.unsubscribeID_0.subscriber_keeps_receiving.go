package topics

import (
	"context"
	"errors"
	"fmt"
	"testing"
	"time"
)

// Custom replay for topics.(*Subscription).Close/pre.topics.(*Topic).unsubscribeID#0.subscriber_keeps_receiving:
// a subscriber whose callback fails closes its subscription (Handle's deferred
// Close) while the publisher is delivering the next event to it. Publish holds
// Topic.mu while it blocks on the subscriber's channel; Close waits for
// Topic.mu without receiving.
func TestLsvcReplay(t *testing.T) {
	top := New[int]()
	started := make(chan struct{})
	handlerDone := make(chan struct{})
	go func() {
		defer close(handlerDone)
		_ = top.Handle(context.Background(), func(v int) error {
			close(started)
			time.Sleep(100 * time.Millisecond) // the publisher starts the next delivery meanwhile
			return errors.New("callback failed")
		})
	}()
	for i := 0; i < 200; i++ {
		top.mu.Lock()
		n := len(top.subscribers)
		top.mu.Unlock()
		if n > 0 {
			break
		}
		time.Sleep(10 * time.Millisecond)
	}
	pubDone := make(chan struct{})
	go func() {
		defer close(pubDone)
		top.Publish(1)
		<-started
		top.Publish(2) // blocks sending to the subscriber, holding Topic.mu
	}()
	select {
	case <-pubDone:
		fmt.Println("LSVC-REPLAY: publisher returned")
	case <-time.After(3 * time.Second):
		fmt.Println("LSVC-REPLAY: CONFIRMED (publisher wedged: Publish holds Topic.mu while blocked on the subscriber, whose Close waits for Topic.mu)")
		return
	}
	select {
	case <-handlerDone:
		fmt.Println("LSVC-REPLAY: subscriber returned; no deadlock")
	case <-time.After(3 * time.Second):
		fmt.Println("LSVC-REPLAY: CONFIRMED (subscriber wedged in Close)")
	}
}
