package syncer

import (
	"context"
	"fmt"
	"testing"

	"github.com/PowerDNS/lightningstream/lmdbenv/header"
	"github.com/PowerDNS/lightningstream/snapshot"
	"github.com/PowerDNS/simpleblob/backends/memory"
)

// Custom scenario replay for syncer.(*Syncer).LoadOnce/post.ret_below_unpub:
// LoadOnce's own write transaction stays empty (nothing to merge), so LMDB
// does not record it; the application commits once before LoadOnce reads
// env.Info(). Native schema.
func TestLsvcReplay(t *testing.T) {
	ctx := context.Background()
	st := memory.New()
	s, env := createInstance(t, "a", st, true)
	setKey(t, env, "foo", "published", true)
	info, _ := env.Info()
	synced := header.TxnID(info.LastTxnID) // everything up to here counts as published
	VerifYield = func(point string) {
		if point == "LoadOnce.afterTxn" {
			setKey(t, env, "bar", "unpublished application write", true)
		}
	}
	defer func() { VerifYield = nil }()
	upd := snapshot.Update{Snapshot: &snapshot.Snapshot{FormatVersion: 3, CompatVersion: 1}}
	txnID, localChanged, err := s.LoadOnce(ctx, env, "b", upd, synced)
	info2, _ := env.Info()
	fmt.Println("LSVC-REPLAY: synced before:", synced, "returned:", txnID, "localChanged:", localChanged, "err:", err, "LastTxnID:", info2.LastTxnID)
	if err == nil && !localChanged && txnID == synced+1 && header.TxnID(info2.LastTxnID) == txnID {
		fmt.Println("LSVC-REPLAY: CONFIRMED (LoadOnce reports transaction", txnID, "as already synced, but that transaction is the application's unpublished commit)")
	}
}
