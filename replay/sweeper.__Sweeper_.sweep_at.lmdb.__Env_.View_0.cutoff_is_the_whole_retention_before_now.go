package sweeper

import (
	"context"
	"fmt"
	"testing"
	"time"

	"github.com/PowerDNS/lightningstream/config"
	"github.com/PowerDNS/lightningstream/lmdbenv"
	"github.com/PowerDNS/lightningstream/lmdbenv/header"
	"github.com/PowerDNS/lmdb-go/lmdb"
	"github.com/sirupsen/logrus/hooks/test"
)

// Custom replay for sweeper.(*Sweeper).sweep/at.lmdb.(*Env).View#0.
// cutoff_is_the_whole_retention_before_now: the solver's model has a retention
// longer than the time since 1970 (e.g. retention_days: 36500). The cutoff
// time then lies before 1970; as an unsigned Timestamp it must not end up
// above the timestamps of present-day entries. A deletion marker written just
// now is far younger than the retention and must survive the pass.
func TestLsvcReplay(t *testing.T) {
	conf := config.Sweeper{
		Enabled:       true,
		RetentionDays: 36500, // 100 years
		Interval:      time.Second,
		LockDuration:  time.Second,
	}
	l, _ := test.NewNullLogger()
	err := lmdbenv.TestEnv(func(env *lmdb.Env) error {
		sw := New("test", conf, env, l, true)
		var dbi lmdb.DBI
		if err := env.Update(func(txn *lmdb.Txn) error {
			var err error
			dbi, err = txn.CreateDBI("d")
			if err != nil {
				return err
			}
			val := make([]byte, header.MinHeaderSize)
			header.PutBasic(val, header.TimestampFromTime(time.Now()), 1, header.FlagDeleted)
			return txn.Put(dbi, []byte("young-marker"), val, 0)
		}); err != nil {
			return err
		}
		if err := sw.sweep(context.Background()); err != nil {
			return err
		}
		return env.View(func(txn *lmdb.Txn) error {
			_, err := txn.Get(dbi, []byte("young-marker"))
			if lmdb.IsNotFound(err) {
				fmt.Println("LSVC-REPLAY: a deletion marker written a moment ago was swept with a retention of 100 years")
				fmt.Println("LSVC-REPLAY: CONFIRMED (the cutoff wrapped around: every marker counts as expired)")
				return nil
			}
			fmt.Println("LSVC-REPLAY: the young marker survived:", err == nil)
			return err
		})
	})
	if err != nil {
		fmt.Println("LSVC-REPLAY: setup error:", err)
	}
}
