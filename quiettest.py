#!/usr/bin/env python3
"""Must-stay-quiet corpus: applies every behaviour-preserving refactoring under
/verif/harmless/<id>/patch.diff to a scratch worktree of /repo's HEAD (under the
system temp directory, removed afterwards) and runs the quick checks of the
properties that name the touched function. Prints ALARM lines for checks that
report a violation there; exits 1 if a refactoring recorded as quiet alarms."""
import json, glob, os, re, subprocess, sys, tempfile, shutil
V = os.path.dirname(os.path.abspath(__file__))
env = dict(os.environ, GOFLAGS='-mod=mod', GOPROXY='off', LSVC_CACHE='1')
props = {}
for f in sorted(glob.glob(V + '/props/C*.json')):
    d = json.load(open(f))
    props[d['id']] = d['functions']
head = subprocess.run(['git', '-C', '/repo', 'rev-parse', 'HEAD'], capture_output=True, text=True).stdout.strip()
wt = tempfile.mkdtemp(prefix='lsvc-quiet.')
os.rmdir(wt)
subprocess.run(['git', '-C', '/repo', 'worktree', 'add', '--detach', wt, head], capture_output=True)
def sh(cmd, cwd):
    return subprocess.run(cmd, shell=True, cwd=cwd, env=env, capture_output=True, text=True)
rc = 0
try:
    only = sys.argv[1:]
    for d in sorted(glob.glob(V + '/harmless/*')):
        name = os.path.basename(d)
        if only and not any(name.startswith(o) for o in only):
            continue
        meta = json.load(open(d + '/meta.json'))
        text = open(d + '/patch.diff').read()
        files = re.findall(r'^\+\+\+ b/(\S+)', text, re.M)
        pkgs = set(os.path.dirname(f) for f in files)
        fn = set(re.findall(r'^@@ .* @@ func (?:\([^)]*\) )?(\w+)', text, re.M)) | set(re.findall(r'^[-+]func (?:\([^)]*\) )?(\w+)', text, re.M))
        sel = [p for p, fs in props.items() if any(f['func'].split('|')[0] in pkgs for f in fs)]
        narrowed = [p for p in sel if any(re.search(r'[.|)]' + x + r'(\$\d+)?$', f['func']) for f in props[p] for x in fn)]
        if narrowed:
            sel = narrowed
        sh('git checkout -q -- . && git clean -fdq', wt)
        if sh('git apply ' + d + '/patch.diff', wt).returncode != 0:
            print('skip ', name, '(patch does not apply)')
            continue
        alarms = []
        for p in sel:
            r = sh(f'bin/lsvc check --property {p} --repo {wt} --no-replay 2>&1', V)
            alarms += [p + ' ' + l[:160] for l in r.stdout.split('\n') if l.startswith('VIOLATION')]
        expected_quiet = not meta.get('verif_result', 'quiet').startswith('ALARM')
        if alarms:
            print('ALARM', name, meta.get('kind'), '(recorded)' if not expected_quiet else '(NEW)')
            for a in alarms[:4]:
                print('      ', a)
            if expected_quiet:
                rc = 1
        else:
            print('quiet', name, meta.get('kind'), sel)
        sys.stdout.flush()
finally:
    subprocess.run(['git', '-C', '/repo', 'worktree', 'remove', '--force', wt], capture_output=True)
    shutil.rmtree(wt, ignore_errors=True)
sys.exit(rc)
