package main

import (
	"fmt"
	"sort"
	"go/token"
	"go/types"
	"strings"

	"golang.org/x/tools/go/ssa"
)

// Lock discipline (C17), per function and modular:
//
//   - the state of every mutex is a ghost array "L|<Type>|<field>" (object
//     reference -> held) or "LG|<pkg.var>" for package-level mutexes; RWMutex
//     read locks live in "R|…";
//   - Lock requires "not held" (Go mutexes are not reentrant: a second Lock in
//     the same goroutine blocks forever) and sets held; Unlock requires held
//     (unlocking an unlocked mutex is a fatal error) and clears it;
//   - at every return of a function under "lockcheck" each mutex is in the
//     state it had at entry (no lock leaks on an early return), unless the
//     contract says otherwise through held(...) in its postcondition;
//   - "guarded T.f by T.mu": every load and store of the field needs the lock
//     (stores and loads need the write lock or, for loads, a read lock) unless
//     the object was allocated in this function (not yet shared);
//   - callees without contract are assumed lock-balanced (the lock state is
//     ghost state: unknown code cannot reach it).
//
// A goroutine starts with no lock held: functions spawned with go are checked
// as functions of their own.

func (e *Enc) lockCheckOn() bool {
	return len(e.frames) > 0 && e.frames[0].con != nil && e.frames[0].con.LockCheck
}

// lockKey: the ghost array (and index) that holds the state of the mutex p points to.
func (e *Enc) lockKey(p Ptr, read bool) (string, T, bool) {
	pre := "L|"
	if read {
		pre = "R|"
	}
	switch p.K {
	case pHeap:
		prefix, _ := pathLeafPrefix(p.Obj, p.Path)
		return pre + typeKey(p.Obj) + "|" + prefix, p.Ref, true
	case pGlobal:
		name := p.Glob.Pkg.Pkg.Name() + "." + p.Glob.Name()
		if len(p.Path) > 0 {
			prefix, _ := pathLeafPrefix(deref(p.Glob.Type()), p.Path)
			name += "." + prefix
		}
		return pre + "G|" + name, bv64(0), true
	}
	return "", T{}, false
}

const lockSort = "(Array (_ BitVec 64) Bool)"

// mutexOp handles sync.(*Mutex|*RWMutex).{Lock,Unlock,RLock,RUnlock,TryLock}.
func (e *Enc) mutexOp(f *frame, name string, args []Val, pos token.Pos) bool {
	if !strings.HasPrefix(name, "(*sync.Mutex).") && !strings.HasPrefix(name, "(*sync.RWMutex).") {
		return false
	}
	op := name[strings.LastIndex(name, ".")+1:]
	if len(args) == 0 {
		return false
	}
	p, ok := args[0].(Ptr)
	if !ok {
		return false
	}
	read := op == "RLock" || op == "RUnlock"
	key, idx, ok := e.lockKey(p, read)
	if !ok {
		if e.lockCheckOn() {
			e.abstract("mutex-of-unknown-identity")
		}
		return true
	}
	h := e.getVar(e.cur, key, lockSort)
	held := sel(h, idx)
	top := e.frames[0]
	if e.dry == 0 {
		if e.lockTouched == nil {
			e.lockTouched = map[string][]T{}
		}
		seen := false
		for _, t := range e.lockTouched[key] {
			if t.S == idx.S {
				seen = true
			}
		}
		if !seen {
			e.lockTouched[key] = append(e.lockTouched[key], idx)
		}
	}
	check := e.lockCheckOn() && e.dry == 0
	switch op {
	case "Lock", "RLock":
		if check {
			n := top.nsafety["lock"]
			top.nsafety["lock"]++
			g := not(held)
			if !strings.HasPrefix(name, "(*sync.RWMutex).") {
				// plain mutex: nothing else to check
			} else if op == "Lock" {
				// a writer also must not hold its own read lock
				rk, ridx, _ := e.lockKey(p, true)
				g = and(g, not(sel(e.getVar(e.cur, rk, lockSort), ridx)))
			} else {
				wk, widx, _ := e.lockKey(p, false)
				g = and(g, not(sel(e.getVar(e.cur, wk, lockSort), widx)))
			}
			e.oblige("safety", fmt.Sprintf("%s/lock.not_already_held#%d", top.name, n), g, pos)
		}
		e.setVarAt(key, idx, store(h, idx, tTrue))
	case "Unlock", "RUnlock":
		if check {
			n := top.nsafety["unlock"]
			top.nsafety["unlock"]++
			e.oblige("safety", fmt.Sprintf("%s/unlock.held#%d", top.name, n), held, pos)
		}
		e.setVarAt(key, idx, store(h, idx, tFalse))
	default:
		e.abstract("mutex-op:" + op)
	}
	return true
}

// guardCheck: a load or store of a guarded field.
func (e *Enc) guardCheck(p Ptr, t types.Type, write bool, pos token.Pos) {
	if (p.K != pHeap && p.K != pGlobal) || e.dry > 0 || !e.lockCheckOn() || len(e.L.Contracts.Guarded) == 0 {
		return
	}
	var hk string
	ref := p.Ref
	if p.K == pGlobal {
		hk = "V|" + p.Glob.Pkg.Pkg.Name() + "." + p.Glob.Name()
		ref = bv64(0)
	} else {
		prefix, _ := pathLeafPrefix(p.Obj, p.Path)
		hk = heapKey(p.Obj, prefix)
	}
	var lk string
	nk := stripBrackets(hk)
	for g, l := range e.L.Contracts.Guarded {
		if nk == g || strings.HasPrefix(nk, g+".") {
			lk = l
		}
	}
	if lk == "" {
		return
	}
	if p.K == pHeap {
		// the mutex is a field of the same object (generic types keep their
		// type arguments in the key)
		lk = "L|" + typeKey(p.Obj) + lk[strings.LastIndex(lk, "|"):]
	}
	top := e.frames[0]
	held := sel(e.getVar(e.cur, lk, lockSort), ref)
	if !write {
		held = or(held, sel(e.getVar(e.cur, "R|"+strings.TrimPrefix(lk, "L|"), lockSort), ref))
	}
	// an object allocated in this function is not shared yet
	fresh := tFalse
	if p.K == pHeap {
		fresh = ule(top.entryAllocRef, p.Ref)
	}
	kind := "read"
	if write {
		kind = "write"
	}
	n := top.nsafety["guard"]
	top.nsafety["guard"]++
	e.oblige("safety", fmt.Sprintf("%s/guarded.%s.%s#%d", top.name, kind, strings.TrimPrefix(strings.TrimPrefix(hk, "H|"), "V|"), n), or(held, fresh), pos)
}

// lockBalance: at the return of the function under check every mutex it
// touched is in its entry state.
func (e *Enc) lockBalance(name string, entry *State, pos token.Pos) {
	var keys []string
	for k := range e.lockTouched {
		keys = append(keys, k)
	}
	sort.Strings(keys)
	for _, k := range keys {
		fin := e.getVar(e.cur, k, lockSort)
		ini := e.getVar(entry, k, lockSort)
		// every mutex this function locked or unlocked (the object may be
		// reached through different but equal references)
		var gs []T
		for _, idx := range e.lockTouched[k] {
			gs = append(gs, eq(sel(fin, idx), sel(ini, idx)))
		}
		e.oblige("post", name+"/lock.balanced."+strings.TrimPrefix(strings.TrimPrefix(k, "L|"), "R|"), and(gs...), pos)
	}
}

var _ = ssa.NaiveForm

// stripBrackets: "H|topics.Topic[T]|subscribers" -> "H|topics.Topic|subscribers"
func stripBrackets(k string) string {
	for {
		i := strings.Index(k, "[")
		if i < 0 {
			return k
		}
		d, j := 0, i
		for ; j < len(k); j++ {
			if k[j] == '[' {
				d++
			} else if k[j] == ']' {
				d--
				if d == 0 {
					break
				}
			}
		}
		if j >= len(k) {
			return k
		}
		k = k[:i] + k[j+1:]
	}
}

// spawn: "go f(args)". The new goroutine runs on its own (its body is checked
// as a function of its own, entered with no lock held); what the spawning
// function learns is the ghost effect the spawned function's contract
// declares ("ghost v := e"), e.g. that a drainer for a channel is now running.
func (e *Enc) spawn(f *frame, g *ssa.Go) {
	var fn *ssa.Function
	switch v := g.Call.Value.(type) {
	case *ssa.Function:
		fn = v
	case *ssa.MakeClosure:
		fn, _ = v.Fn.(*ssa.Function)
	}
	if fn == nil {
		e.abstract("go-statement")
		return
	}
	con := e.L.contractOf(fn)
	if con == nil || len(con.Ghost) == 0 {
		e.abstract("go-statement")
		return
	}
	env := &Env{names: map[string]TV{}, oldNames: map[string]TV{}, st: e.cur, old: e.cur}
	pkg, _ := e.L.typesInfoFor(fn)
	env.pkg = pkg
	for i, p := range fn.Params {
		if i < len(g.Call.Args) {
			env.names[p.Name()] = TV{V: e.val(g.Call.Args[i]), Ty: p.Type()}
		}
	}
	for _, gu := range con.Ghost {
		tv := e.eval(env, gu.Expr)
		v, _ := e.materialize(env, tv, types.Typ[types.Uint64])
		e.setVar("G|"+gu.Var, e.scalar(v, SBV64))
	}
	e.noteTrusted("spawn contract: " + e.L.funcName(fn))
}
