package main

import (
	"encoding/json"
	"flag"
	"fmt"
	"os"
	"path/filepath"
	"regexp"
	"sort"
	"strings"
	"sync"
	"time"
)

var (
	verifDir = "/verif"
	repoDir  = "/repo"
)

type PropFunc struct {
	Func    string   `json:"func"`              // "<pkg rel path>|<key>", e.g. "lmdbenv/header|Parse"
	Include []string `json:"include,omitempty"` // glob patterns on the obligation's local name (after "/")
	Exclude []string `json:"exclude,omitempty"`
	Tier    string   `json:"tier,omitempty"` // "thorough": only in the thorough tier
}

type PropSpec struct {
	ID        string     `json:"id"`
	Functions []PropFunc `json:"functions"`
	Lemmas    []string   `json:"lemmas,omitempty"`
	Rel       []string   `json:"rel,omitempty"`
	Notes     string     `json:"notes,omitempty"`
	Assumptions []string `json:"assumptions,omitempty"`
	NotDecided  []string `json:"not_decided,omitempty"`
	SplitOnCells bool `json:"split_on_cells,omitempty"`
	OpaqueSpecs []string `json:"opaque_specs,omitempty"` // spec functions treated as uninterpreted (with their specfacts) in this check
	AssumeExclude []string `json:"assume_exclude,omitempty"` // callee clauses ("<callee>/<label>") not assumed in this check
}

func main() {
	if len(os.Args) < 2 {
		fmt.Fprintln(os.Stderr, "usage: lsvc check|dump|selftest ...")
		os.Exit(2)
	}
	if d := os.Getenv("LSVC_VERIF"); d != "" {
		verifDir = d
	}
	if d := os.Getenv("LSVC_REPO"); d != "" {
		repoDir = d
	}
	switch os.Args[1] {
	case "check":
		os.Exit(cmdCheck(os.Args[2:]))
	case "dump":
		os.Exit(cmdDump(os.Args[2:]))
	case "replay":
		os.Exit(cmdReplay(os.Args[2:]))
	default:
		fmt.Fprintln(os.Stderr, "unknown command", os.Args[1])
		os.Exit(2)
	}
}

func globMatch(pat, s string) bool {
	re := "^" + strings.ReplaceAll(regexp.QuoteMeta(pat), `\*`, ".*") + "$"
	ok, _ := regexp.MatchString(re, s)
	return ok
}

func loadProp(id string) (*PropSpec, error) {
	data, err := os.ReadFile(filepath.Join(verifDir, "props", id+".json"))
	if err != nil {
		return nil, err
	}
	var p PropSpec
	if err := json.Unmarshal(data, &p); err != nil {
		return nil, fmt.Errorf("props/%s.json: %v", id, err)
	}
	return &p, nil
}

type checkOpts struct {
	prop     string
	tier     string
	seed     int
	repo     string
	timeout  int
	only     string // restrict to one function (debugging)
	keep     bool
	verbose  bool
	noReplay bool
}

func cmdCheck(args []string) int {
	fs := flag.NewFlagSet("check", flag.ExitOnError)
	var o checkOpts
	fs.StringVar(&o.prop, "property", "", "property id")
	fs.StringVar(&o.tier, "tier", "quick", "quick|thorough")
	fs.StringVar(&o.repo, "repo", repoDir, "repository working tree")
	fs.IntVar(&o.timeout, "timeout", 0, "per-obligation timeout (s)")
	fs.StringVar(&o.only, "only", "", "only this function key (debug)")
	fs.BoolVar(&o.keep, "keep", false, "keep query files")
	fs.BoolVar(&o.verbose, "v", false, "verbose")
	fs.BoolVar(&o.noReplay, "no-replay", false, "do not replay counterexamples")
	fs.Parse(args)
	if t := os.Getenv("VERIF_TIER"); t != "" && o.tier == "" {
		o.tier = t
	}
	fmt.Sscanf(os.Getenv("VERIF_SEED"), "%d", &o.seed)
	if o.timeout == 0 {
		o.timeout = 20
		if o.tier == "thorough" {
			o.timeout = 120
		}
	}
	repoDir = o.repo
	rc, err := runCheck(&o)
	if err != nil {
		fmt.Fprintln(os.Stderr, "lsvc: error:", err)
		return 2
	}
	if rc == 0 && o.tier == "thorough" && o.repo == "/repo" && o.only == "" && os.Getenv("LSVC_NO_CORPUS") == "" {
		cr, err := runCorpus(o.prop)
		if err != nil {
			fmt.Fprintln(os.Stderr, "lsvc: must-fail corpus:", err)
			return 2
		}
		fmt.Printf("%s thorough: must-fail corpus: %d seeded changes checked, %d reported, %d skipped\n", o.prop, cr.Checked, cr.Detected, len(cr.Skipped))
		addCorpusToEvidence(o.prop, cr)
		if len(cr.Missed) > 0 {
			fmt.Fprintf(os.Stderr, "lsvc: CHECK-ERROR: seeded changes no longer reported: %s\n", strings.Join(cr.Missed, ", "))
			return 2
		}
	}
	return rc
}

type oblResult struct {
	O  *Obligation
	E  *Enc
	Fn string
}

func runCheck(o *checkOpts) (int, error) {
	t0 := time.Now()
	prop, err := loadProp(o.prop)
	if err != nil {
		return 2, err
	}
	// packages to load
	pkgset := map[string]bool{}
	for _, pf := range prop.Functions {
		pkgset["./"+strings.SplitN(pf.Func, "|", 2)[0]] = true
	}
	var patterns []string
	for p := range pkgset {
		patterns = append(patterns, p)
	}
	sort.Strings(patterns)
	tl := time.Now()
	L, err := Load(repoDir, filepath.Join(verifDir, "spec"), patterns)
	if err != nil {
		return 2, err
	}
	L.LoadMs = time.Since(tl).Milliseconds()

	work := filepath.Join(verifDir, "work", o.prop+"-"+o.tier)
	os.RemoveAll(work)
	os.MkdirAll(work, 0o755)

	var all []oblResult
	var encErrs []string
	var encs []*Enc
	funcsUnder := []string{}
	for _, pf := range prop.Functions {
		if pf.Tier == "thorough" && o.tier != "thorough" {
			continue
		}
		parts := strings.SplitN(pf.Func, "|", 2)
		if o.only != "" && !strings.Contains(parts[1], o.only) {
			continue
		}
		pkgPath := repoModule + "/" + parts[0]
		fn := L.findFunc(pkgPath, parts[1])
		con := L.Contracts.ByKey[pkgPath+"|"+parts[1]]
		if fn == nil || con == nil {
			// the function (or its contract) disappeared: contract-unbound
			encErrs = append(encErrs, fmt.Sprintf("contract-unbound: %s (function found: %v, contract found: %v)", pf.Func, fn != nil, con != nil))
			continue
		}
		e := NewEnc(L)
		e.tier = o.tier
		e.skipAssume = map[string]bool{}
		for _, x := range prop.AssumeExclude {
			e.skipAssume[x] = true
		}
		e.splitOnCells = prop.SplitOnCells
		e.opaqueNames = map[string]bool{}
		for _, x := range prop.OpaqueSpecs {
			e.opaqueNames[x] = true
		}
		func() {
			defer func() {
				if r := recover(); r != nil {
					encErrs = append(encErrs, fmt.Sprintf("encoder failure in %s: %v", pf.Func, r))
					if o.verbose {
						panic(r)
					}
				}
			}()
			e.verifyFunction(fn, con)
		}()
		encs = append(encs, e)
		funcsUnder = append(funcsUnder, L.funcName(fn))
		for _, m := range e.errs {
			encErrs = append(encErrs, m)
		}
		for _, ob := range e.obls {
			local := ob.Name[strings.Index(ob.Name, "/")+1:]
			inc := len(pf.Include) == 0
			for _, p := range pf.Include {
				if globMatch(p, local) {
					inc = true
				}
			}
			for _, p := range pf.Exclude {
				if globMatch(p, local) {
					inc = false
				}
			}
			if ob.Kind == "cover" {
				inc = true
			}
			if inc {
				all = append(all, oblResult{O: ob, E: e, Fn: pf.Func})
			}
		}
	}

	for _, ln := range prop.Lemmas {
		if o.only != "" && !strings.Contains(ln, o.only) {
			continue
		}
		var lm *Lemma
		for _, c := range L.Contracts.Lemmas {
			if c.Name == ln {
				lm = c
			}
		}
		if lm == nil {
			encErrs = append(encErrs, "contract-unbound: lemma "+ln+" not found")
			continue
		}
		e := NewEnc(L)
		e.tier = o.tier
		func() {
			defer func() {
				if r := recover(); r != nil {
					encErrs = append(encErrs, fmt.Sprintf("encoder failure in lemma %s: %v", ln, r))
					if o.verbose {
						panic(r)
					}
				}
			}()
			e.runLemma(lm)
		}()
		encs = append(encs, e)
		encErrs = append(encErrs, e.errs...)
		for _, ob := range e.obls {
			all = append(all, oblResult{O: ob, E: e, Fn: "lemma:" + ln})
		}
	}
	for _, which := range prop.Rel {
		if o.only != "" && !strings.Contains(which, o.only) {
			continue
		}
		tierOnly := ""
		if i := strings.Index(which, "@"); i >= 0 {
			which, tierOnly = which[:i], which[i+1:]
		}
		if tierOnly == "thorough" && o.tier != "thorough" {
			continue
		}
		e := NewEnc(L)
		e.tier = o.tier
		func() {
			defer func() {
				if r := recover(); r != nil {
					encErrs = append(encErrs, fmt.Sprintf("encoder failure in rel %s: %v", which, r))
					if o.verbose {
						panic(r)
					}
				}
			}()
			e.relObligations(which)
		}()
		encs = append(encs, e)
		encErrs = append(encErrs, e.errs...)
		for _, ob := range e.obls {
			all = append(all, oblResult{O: ob, E: e, Fn: "rel:" + which})
		}
	}

	// a closure expanded at two call sites (env.View / env.Update branches)
	// yields obligations with the same name: number the later ones
	{
		seen := map[string]int{}
		for i := range all {
			n := all[i].O.Name
			seen[n]++
			if seen[n] > 1 {
				all[i].O.Name = fmt.Sprintf("%s~%d", n, seen[n])
			}
		}
	}
	if os.Getenv("LSVC_DEBUG") != "" {
		fmt.Fprintf(os.Stderr, "encoding done at %.1fs (%d obligations)\n", time.Since(t0).Seconds(), len(all))
	}
	// solve
	var wg sync.WaitGroup
	sem := make(chan struct{}, 14)
	for i := range all {
		wg.Add(1)
		go func(r *oblResult) {
			defer wg.Done()
			sem <- struct{}{}
			defer func() { <-sem }()
			if r.O.Goal.S == "true" && r.O.Expect == "unsat" {
				r.O.Res = SolveResult{Status: "unsat", Solver: "trivial"}
				return
			}
			decide(r, o, work)
		}(&all[i])
	}
	wg.Wait()
	if os.Getenv("LSVC_DEBUG") != "" {
		fmt.Fprintf(os.Stderr, "solving done at %.1fs\n", time.Since(t0).Seconds())
	}

	rep := &Report{Prop: prop, Opts: o, L: L, All: all, EncErrs: encErrs, Encs: encs, Funcs: funcsUnder, T0: t0, Work: work}
	return rep.finish()
}

const directBudget = 4 // seconds for the first, direct attempt

// decide runs the proof strategy for one obligation:
//   1. the query as it is (short budget);
//   2. case split on the conditions that select between memory versions
//      (append fits / not, branches that merge different memories);
//   3. the conjuncts of the goal one by one (each again with 1 and 2);
//   4. the query as it is with the full budget and another seed.
// A counterexample (sat) at any stage ends the search.
func decide(r *oblResult, o *checkOpts, work string) {
	ob := r.O
	q := r.E.query(ob, false)
	if ob.Kind == "cover" {
		// vacuity guards get a short budget: an undecided guard is reported, not fatal
		budget := 5
		if ob.Group != "" {
			budget = 3 // antecedent guards: many, and an undecided one is only a note
		}
		// vacuity guards under the opt-in cache: any earlier answer for the
		// identical query is reused (they are notes, not proof steps)
		if cf := cacheFile("cover:" + q); cf != "" {
			if b, err := os.ReadFile(cf); err == nil {
				f := strings.SplitN(strings.TrimSpace(string(b)), " ", 2)
				if len(f) == 2 {
					ob.Res = SolveResult{Status: f[0], Solver: "cache(" + f[1] + ")"}
					return
				}
			}
			ob.Res = solve(work, ob.Name, q, budget, o.seed, "")
			os.MkdirAll(filepath.Dir(cf), 0o755)
			os.WriteFile(cf, []byte(ob.Res.Status+" "+ob.Res.Solver), 0o644)
			return
		}
		ob.Res = solve(work, ob.Name, q, budget, o.seed, "")
		return
	}
	t0 := time.Now()
	budget := directBudget
	if budget > o.timeout {
		budget = o.timeout
	}
	res := solveSliced(work, ob.Name, q, budget, o.seed)
	if res.Status == "unsat" || res.Status == "sat" {
		ob.Res = res
		return
	}
	finish := func(res SolveResult, how string) {
		res.Ms = time.Since(t0).Milliseconds()
		if how != "" {
			res.Solver += "+" + how
		}
		ob.Res = res
	}
	if res2, ok := solveCubes(r.E, ob, ob.Goal, o, work, ob.Name); ok {
		finish(res2, "cases")
		return
	}
	if parts := splitGoal(ob.Goal); len(parts) > 1 {
		all := true
		var last SolveResult
		for i, g := range parts {
			o2 := *ob
			o2.Goal = g
			name := fmt.Sprintf("%s.part%d", ob.Name, i)
			pr := solve(work, name, r.E.query(&o2, false), budget, o.seed, "")
			if pr.Status != "unsat" && pr.Status != "sat" {
				if cr, ok := solveCubes(r.E, &o2, g, o, work, name); ok {
					pr = cr
				}
			}
			last = pr
			if pr.Status == "sat" {
				finish(pr, "split")
				return
			}
			if pr.Status != "unsat" {
				all = false
				break
			}
		}
		if all {
			finish(last, "split")
			return
		}
	}
	res = solveSliced(work, ob.Name+".retry", q, o.timeout, o.seed+7)
	finish(res, "")
}

const maxCubeVars = 8

// solveCubes refines the query adaptively on the recorded case-split
// conditions (branches that merge different memories or local values): a cube
// that stays undecided within a short budget is split on the next condition;
// leaves get the full budget. ok is false when there is nothing to split on or
// some cube stayed undecided.
func solveCubes(e *Enc, ob *Obligation, goal T, o *checkOpts, work, name string) (SolveResult, bool) {
	var conds, hints []T
	for _, sc := range e.splitConds {
		if sc.at <= ob.Upto {
			if sc.hint {
				hints = append(hints, sc.c)
			} else {
				conds = append(conds, sc.c)
			}
		}
	}
	if len(conds)+len(hints) == 0 {
		return SolveResult{}, false
	}
	// the latest hints of a contract first (the innermost loop's case
	// distinction), then the latest branch conditions: they are the closest
	// to the obligation
	for i, j := 0, len(conds)-1; i < j; i, j = i+1, j-1 {
		conds[i], conds[j] = conds[j], conds[i]
	}
	if len(hints) > 4 {
		hints = hints[len(hints)-4:]
	}
	conds = append(hints, conds...)
	if len(conds) > maxCubeVars {
		conds = conds[:maxCubeVars]
	}
	var mu sync.Mutex
	var total int64
	ncase := 0
	stop := false
	sem := make(chan struct{}, 8)
	var refine func(extra []string, rest []T, id string) SolveResult
	// split: two conditions at a time (four cubes), so that a deep refinement
	// costs half as many sequential short attempts
	var split func(extra []string, rest []T, id string) SolveResult
	split = func(extra []string, rest []T, id string) SolveResult {
		k := 2
		if len(rest) < k {
			k = len(rest)
		}
		n := 1 << uint(k)
		rs := make([]SolveResult, n)
		var wg sync.WaitGroup
		for m := 0; m < n; m++ {
			wg.Add(1)
			go func(m int) {
				defer wg.Done()
				ex := append([]string{}, extra...)
				cid := id
				for i := 0; i < k; i++ {
					if m&(1<<uint(i)) != 0 {
						ex = append(ex, "(assert "+rest[i].S+")")
						cid += "1"
					} else {
						ex = append(ex, "(assert (not "+rest[i].S+"))")
						cid += "0"
					}
				}
				rs[m] = refine(ex, rest[k:], cid)
			}(m)
		}
		wg.Wait()
		for _, r := range rs {
			if r.Status == "sat" {
				return r
			}
		}
		for _, r := range rs {
			if r.Status != "unsat" {
				return r
			}
		}
		return rs[0]
	}
	refine = func(extra []string, rest []T, id string) SolveResult {
		o2 := *ob
		o2.Goal = goal
		o2.Extra = extra
		budget := 3
		if len(rest) == 0 {
			budget = o.timeout
		}
		if budget > o.timeout {
			budget = o.timeout
		}
		sem <- struct{}{}
		mu.Lock()
		st := stop
		mu.Unlock()
		if st {
			// a counterexample (or an undecidable leaf) was found elsewhere
			<-sem
			return SolveResult{Status: "skipped"}
		}
		res := solveSliced(work, fmt.Sprintf("%s.case%s", name, id), e.query(&o2, false), budget, o.seed)
		<-sem
		mu.Lock()
		total += res.Ms
		ncase++
		if res.Status == "sat" || (len(rest) == 0 && res.Status != "unsat") {
			stop = true
		}
		mu.Unlock()
		if os.Getenv("LSVC_DEBUG") != "" {
			fmt.Fprintf(os.Stderr, "case %s #%s: %s %s %dms\n", name, id, res.Status, res.Solver, res.Ms)
		}
		res.Cube = extra
		if res.Status == "unsat" || res.Status == "sat" || len(rest) == 0 {
			return res
		}
		return split(extra, rest, id)
	}
	res := split(append([]string{}, ob.Extra...), conds, "")
	res.Ms = total
	return res, res.Status == "unsat" || res.Status == "sat"
}

// splitGoal breaks a goal into conjuncts: (and a b) and (=> p (and a b)).
func splitGoal(g T) []T {
	s := strings.TrimSpace(g.S)
	if strings.HasPrefix(s, "(and ") {
		var out []T
		for _, p := range sexpArgs(s) {
			out = append(out, splitGoal(T{p, SBool})...)
		}
		return out
	}
	if strings.HasPrefix(s, "(=> ") {
		args := sexpArgs(s)
		if len(args) == 2 {
			sub := splitGoal(T{args[1], SBool})
			if len(sub) > 1 {
				var out []T
				for _, c := range sub {
					out = append(out, T{"(=> " + args[0] + " " + c.S + ")", SBool})
				}
				return out
			}
		}
	}
	return []T{g}
}

// sexpArgs returns the arguments of the s-expression "(op a b ...)".
func sexpArgs(s string) []string {
	s = strings.TrimSpace(s)
	if len(s) < 2 || s[0] != '(' {
		return nil
	}
	body := s[1 : len(s)-1]
	i := skipSexp(body) // operator
	var out []string
	for i < len(body) {
		for i < len(body) && body[i] == ' ' {
			i++
		}
		if i >= len(body) {
			break
		}
		n := skipSexp(body[i:])
		out = append(out, strings.TrimSpace(body[i:i+n]))
		i += n
	}
	return out
}

func cmdDump(args []string) int {
	fs := flag.NewFlagSet("dump", flag.ExitOnError)
	pkg := fs.String("pkg", "", "package rel path")
	fn := fs.String("func", "", "function key")
	fs.Parse(args)
	L, err := Load(repoDir, filepath.Join(verifDir, "spec"), []string{"./" + *pkg})
	if err != nil {
		fmt.Fprintln(os.Stderr, err)
		return 2
	}
	f := L.findFunc(repoModule+"/"+*pkg, *fn)
	if f == nil {
		var keys []string
		for k := range L.allFuncs {
			if strings.HasPrefix(k, repoModule+"/"+*pkg+"|") {
				keys = append(keys, k)
			}
		}
		sort.Strings(keys)
		fmt.Println(strings.Join(keys, "\n"))
		return 1
	}
	f.WriteTo(os.Stdout)
	return 0
}

func addCorpusToEvidence(prop string, cr *corpusResult) {
	p := filepath.Join(verifDir, "evidence", prop+".json")
	b, err := os.ReadFile(p)
	if err != nil {
		return
	}
	var ev map[string]interface{}
	if json.Unmarshal(b, &ev) != nil {
		return
	}
	cov, _ := ev["coverage"].(map[string]interface{})
	if cov == nil {
		return
	}
	cov["must_fail_corpus"] = cr
	out, _ := json.MarshalIndent(ev, "", " ")
	os.WriteFile(p, out, 0o644)
}
