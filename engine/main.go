package main

import (
	"encoding/json"
	"flag"
	"fmt"
	"os"
	"path/filepath"
	"regexp"
	"sort"
	"strings"
	"sync"
	"time"
)

var (
	verifDir = "/verif"
	repoDir  = "/repo"
)

type PropFunc struct {
	Func    string   `json:"func"`              // "<pkg rel path>|<key>", e.g. "lmdbenv/header|Parse"
	Include []string `json:"include,omitempty"` // glob patterns on the obligation's local name (after "/")
	Exclude []string `json:"exclude,omitempty"`
	Tier    string   `json:"tier,omitempty"` // "thorough": only in the thorough tier
}

type PropSpec struct {
	ID        string     `json:"id"`
	Functions []PropFunc `json:"functions"`
	Lemmas    []string   `json:"lemmas,omitempty"`
	Rel       []string   `json:"rel,omitempty"`
	Notes     string     `json:"notes,omitempty"`
	Assumptions []string `json:"assumptions,omitempty"`
	NotDecided  []string `json:"not_decided,omitempty"`
}

func main() {
	if len(os.Args) < 2 {
		fmt.Fprintln(os.Stderr, "usage: lsvc check|dump|selftest ...")
		os.Exit(2)
	}
	if d := os.Getenv("LSVC_VERIF"); d != "" {
		verifDir = d
	}
	if d := os.Getenv("LSVC_REPO"); d != "" {
		repoDir = d
	}
	switch os.Args[1] {
	case "check":
		os.Exit(cmdCheck(os.Args[2:]))
	case "dump":
		os.Exit(cmdDump(os.Args[2:]))
	case "replay":
		os.Exit(cmdReplay(os.Args[2:]))
	default:
		fmt.Fprintln(os.Stderr, "unknown command", os.Args[1])
		os.Exit(2)
	}
}

func globMatch(pat, s string) bool {
	re := "^" + strings.ReplaceAll(regexp.QuoteMeta(pat), `\*`, ".*") + "$"
	ok, _ := regexp.MatchString(re, s)
	return ok
}

func loadProp(id string) (*PropSpec, error) {
	data, err := os.ReadFile(filepath.Join(verifDir, "props", id+".json"))
	if err != nil {
		return nil, err
	}
	var p PropSpec
	if err := json.Unmarshal(data, &p); err != nil {
		return nil, fmt.Errorf("props/%s.json: %v", id, err)
	}
	return &p, nil
}

type checkOpts struct {
	prop     string
	tier     string
	seed     int
	repo     string
	timeout  int
	only     string // restrict to one function (debugging)
	keep     bool
	verbose  bool
	noReplay bool
}

func cmdCheck(args []string) int {
	fs := flag.NewFlagSet("check", flag.ExitOnError)
	var o checkOpts
	fs.StringVar(&o.prop, "property", "", "property id")
	fs.StringVar(&o.tier, "tier", "quick", "quick|thorough")
	fs.StringVar(&o.repo, "repo", repoDir, "repository working tree")
	fs.IntVar(&o.timeout, "timeout", 0, "per-obligation timeout (s)")
	fs.StringVar(&o.only, "only", "", "only this function key (debug)")
	fs.BoolVar(&o.keep, "keep", false, "keep query files")
	fs.BoolVar(&o.verbose, "v", false, "verbose")
	fs.BoolVar(&o.noReplay, "no-replay", false, "do not replay counterexamples")
	fs.Parse(args)
	if t := os.Getenv("VERIF_TIER"); t != "" && o.tier == "" {
		o.tier = t
	}
	fmt.Sscanf(os.Getenv("VERIF_SEED"), "%d", &o.seed)
	if o.timeout == 0 {
		o.timeout = 20
		if o.tier == "thorough" {
			o.timeout = 120
		}
	}
	repoDir = o.repo
	rc, err := runCheck(&o)
	if err != nil {
		fmt.Fprintln(os.Stderr, "lsvc: error:", err)
		return 2
	}
	return rc
}

type oblResult struct {
	O  *Obligation
	E  *Enc
	Fn string
}

func runCheck(o *checkOpts) (int, error) {
	t0 := time.Now()
	prop, err := loadProp(o.prop)
	if err != nil {
		return 2, err
	}
	// packages to load
	pkgset := map[string]bool{}
	for _, pf := range prop.Functions {
		pkgset["./"+strings.SplitN(pf.Func, "|", 2)[0]] = true
	}
	var patterns []string
	for p := range pkgset {
		patterns = append(patterns, p)
	}
	sort.Strings(patterns)
	tl := time.Now()
	L, err := Load(repoDir, filepath.Join(verifDir, "spec"), patterns)
	if err != nil {
		return 2, err
	}
	L.LoadMs = time.Since(tl).Milliseconds()

	work := filepath.Join(verifDir, "work", o.prop+"-"+o.tier)
	os.RemoveAll(work)
	os.MkdirAll(work, 0o755)

	var all []oblResult
	var encErrs []string
	var encs []*Enc
	funcsUnder := []string{}
	for _, pf := range prop.Functions {
		if pf.Tier == "thorough" && o.tier != "thorough" {
			continue
		}
		parts := strings.SplitN(pf.Func, "|", 2)
		if o.only != "" && !strings.Contains(parts[1], o.only) {
			continue
		}
		pkgPath := repoModule + "/" + parts[0]
		fn := L.findFunc(pkgPath, parts[1])
		con := L.Contracts.ByKey[pkgPath+"|"+parts[1]]
		if fn == nil || con == nil {
			// the function (or its contract) disappeared: contract-unbound
			encErrs = append(encErrs, fmt.Sprintf("contract-unbound: %s (function found: %v, contract found: %v)", pf.Func, fn != nil, con != nil))
			continue
		}
		e := NewEnc(L)
		e.tier = o.tier
		func() {
			defer func() {
				if r := recover(); r != nil {
					encErrs = append(encErrs, fmt.Sprintf("encoder failure in %s: %v", pf.Func, r))
					if o.verbose {
						panic(r)
					}
				}
			}()
			e.verifyFunction(fn, con)
		}()
		encs = append(encs, e)
		funcsUnder = append(funcsUnder, L.funcName(fn))
		for _, m := range e.errs {
			encErrs = append(encErrs, m)
		}
		for _, ob := range e.obls {
			local := ob.Name[strings.Index(ob.Name, "/")+1:]
			inc := len(pf.Include) == 0
			for _, p := range pf.Include {
				if globMatch(p, local) {
					inc = true
				}
			}
			for _, p := range pf.Exclude {
				if globMatch(p, local) {
					inc = false
				}
			}
			if ob.Kind == "cover" {
				inc = true
			}
			if inc {
				all = append(all, oblResult{O: ob, E: e, Fn: pf.Func})
			}
		}
	}

	// solve
	var wg sync.WaitGroup
	sem := make(chan struct{}, 14)
	for i := range all {
		wg.Add(1)
		go func(r *oblResult) {
			defer wg.Done()
			sem <- struct{}{}
			defer func() { <-sem }()
			if r.O.Goal.S == "true" && r.O.Expect == "unsat" {
				r.O.Res = SolveResult{Status: "unsat", Solver: "trivial"}
				return
			}
			q := r.E.query(r.O, false)
			r.O.Res = solve(work, r.O.Name, q, o.timeout, o.seed, "")
			if r.O.Res.Status != r.O.Expect && r.O.Expect == "unsat" && r.O.Res.Status != "sat" {
				// one retry with another seed
				r.O.Res = solve(work, r.O.Name+".retry", q, o.timeout, o.seed+7, "")
			}
		}(&all[i])
	}
	wg.Wait()

	rep := &Report{Prop: prop, Opts: o, L: L, All: all, EncErrs: encErrs, Encs: encs, Funcs: funcsUnder, T0: t0, Work: work}
	return rep.finish()
}

func cmdDump(args []string) int {
	fs := flag.NewFlagSet("dump", flag.ExitOnError)
	pkg := fs.String("pkg", "", "package rel path")
	fn := fs.String("func", "", "function key")
	fs.Parse(args)
	L, err := Load(repoDir, filepath.Join(verifDir, "spec"), []string{"./" + *pkg})
	if err != nil {
		fmt.Fprintln(os.Stderr, err)
		return 2
	}
	f := L.findFunc(repoModule+"/"+*pkg, *fn)
	if f == nil {
		var keys []string
		for k := range L.allFuncs {
			if strings.HasPrefix(k, repoModule+"/"+*pkg+"|") {
				keys = append(keys, k)
			}
		}
		sort.Strings(keys)
		fmt.Println(strings.Join(keys, "\n"))
		return 1
	}
	f.WriteTo(os.Stdout)
	return 0
}
