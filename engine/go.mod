module lsvc

go 1.25.11

require golang.org/x/tools v0.29.0
