package main

import (
	"os"
	"fmt"
	"go/token"
	"go/types"
	"sort"
	"strings"

	"golang.org/x/tools/go/ssa"
)

// purePrefixes: callees whose effects are outside the verified state
// (logging, metrics, formatting, clock). Results are fresh, nothing is
// modified. Listed in every evidence file (trusted base item 8).
var purePrefixes = []string{
	"github.com/sirupsen/logrus",
	"(*github.com/sirupsen/logrus",
	"(github.com/sirupsen/logrus",
	"fmt.",
	"errors.New",
	"encoding/hex.",
	"github.com/prometheus/",
	"(github.com/prometheus/",
	"(*github.com/prometheus/",
	"time.Now", "time.Since", "(time.Time).", "(time.Duration).", "time.Unix",
	"github.com/PowerDNS/lightningstream/utils.DisplayASCII",
	"github.com/PowerDNS/lightningstream/utils.TimeDiff",
	"github.com/PowerDNS/lightningstream/utils.GC",
	"github.com/PowerDNS/lightningstream/utils.IsCanceled",
	"(github.com/PowerDNS/lightningstream/snapshot.ErrUnexpectedWireType).Error",
	"math.",
	"strings.HasPrefix", "strings.HasSuffix", "strings.Contains",
	"(*github.com/wojas/go-healthz",
	"(github.com/c2h5oh/datasize.ByteSize).",
	"github.com/PowerDNS/lightningstream/snapshot.NameTimestampFromNano",
	"github.com/PowerDNS/lightningstream/snapshot.ShortHash",
	"(github.com/PowerDNS/lightningstream/snapshot.NameExtra).String",
	"(*github.com/PowerDNS/lightningstream/status/starttracker",
	"(*github.com/PowerDNS/lightningstream/status/healthtracker",
	"(*sync.Mutex).", "(*sync.RWMutex).",
	"context.WithCancel", "(context.Context).",
}

func isPureName(name string) bool {
	for _, p := range purePrefixes {
		if strings.HasPrefix(name, p) {
			return true
		}
	}
	return false
}

func (e *Enc) call(f *frame, c *ssa.CallCommon, instr *ssa.Call, pos token.Pos) Val {
	var args []Val
	for _, a := range c.Args {
		args = append(args, e.val(a))
	}
	resT := c.Signature().Results()
	freshResults := func(hint string) Val {
		switch resT.Len() {
		case 0:
			return nil
		case 1:
			return e.freshVal(resT.At(0).Type(), hint)
		}
		vs := make([]Val, resT.Len())
		for i := range vs {
			vs[i] = e.freshVal(resT.At(i).Type(), hint)
		}
		return Tup{vs}
	}
	pack := func(vs []Val) Val {
		switch len(vs) {
		case 0:
			return nil
		case 1:
			return vs[0]
		}
		return Tup{vs}
	}

	if c.IsInvoke() {
		// interface method call: contract attached to the interface type
		recv := e.val(c.Value)
		key := "type " + typeKey(c.Value.Type()) + " method " + c.Method.Name()
		if f.con != nil && len(f.con.CallAsserts) > 0 {
			// call-site assertions on interface method calls: "<pkg.Type>.<Method>#n"
			disp := typeKey(c.Value.Type()) + "." + c.Method.Name()
			n := f.ncallAll[disp]
			f.ncallAll[disp]++
			for _, ca := range f.con.CallAsserts {
				if ca.Callee == disp && ca.N == n && !ca.After {
					env := e.cellEnv(f, pos, e.cur.clone())
					env.names["arg0"] = TV{V: recv, Ty: c.Value.Type()}
					for i, a := range args {
						env.names[fmt.Sprintf("arg%d", i+1)] = TV{V: a, Ty: c.Signature().Params().At(i).Type()}
					}
					e.callAssert(f, disp, n, ca, env, pos)
				}
			}
		}
		var afterHooks []CallAssert
		dispAfter := typeKey(c.Value.Type()) + "." + c.Method.Name()
		if f.con != nil {
			nAfter := f.ncallAll[dispAfter] - 1 // this call's ordinal (counted above when hooks exist)
			for _, ca := range f.con.CallAsserts {
				if ca.Callee == dispAfter && ca.N == nAfter && ca.After {
					afterHooks = append(afterHooks, ca)
				}
			}
		}
		finish := func(r Val) Val {
			for _, ca := range afterHooks {
				env := e.cellEnv(f, pos, e.cur)
				res := c.Signature().Results()
				if t, ok := r.(Tup); ok {
					for i, v := range t.V {
						env.names[fmt.Sprintf("ret%d", i)] = TV{V: v, Ty: res.At(i).Type()}
					}
				} else if r != nil && res.Len() == 1 {
					env.names["ret0"] = TV{V: r, Ty: res.At(0).Type()}
				}
				tv := e.evalClauseVal(env, ca.Clause)
				v, _ := e.materialize(env, tv, types.Typ[types.Uint64])
				e.setVar("G|"+ca.Var, e.scalar(v, SBV64))
				if e.dry == 0 {
					f.assertsSeen[fmt.Sprintf("%s#%d", ca.Callee, ca.N)] = true
				}
			}
			return r
		}
		if con := e.L.Contracts.ByKey["|"+key]; con != nil {
			return finish(pack(e.applyContract(f, con, key, append([]Val{recv}, args...), c.Signature(), nil, pos)))
		}
		full := "(" + types.TypeString(c.Value.Type(), nil) + ")." + c.Method.Name()
		if isPureName(full) || c.Method.Name() == "Error" {
			e.noteTrusted("pure:" + full)
			return finish(freshResults(c.Method.Name()))
		}
		e.abstract("invoke:" + full)
		e.havocAll("invoke " + full)
		e.havocClosureCells(args, map[*ssa.Function]bool{})
		return finish(freshResults(c.Method.Name()))
	}

	switch fv := c.Value.(type) {
	case *ssa.Builtin:
		if f.con != nil && len(f.con.CallAsserts) > 0 {
			// call-site assertions on builtins (copy, append): "copy#n"
			disp := fv.Name()
			n := f.ncallAll[disp]
			f.ncallAll[disp]++
			for _, ca := range f.con.CallAsserts {
				if ca.Callee == disp && ca.N == n && !ca.After {
					env := e.cellEnv(f, pos, e.cur.clone())
					for i, a := range args {
						env.names[fmt.Sprintf("arg%d", i)] = TV{V: a, Ty: c.Args[i].Type()}
					}
					e.callAssert(f, disp, n, ca, env, pos)
				}
			}
			r := e.builtin(f, fv.Name(), c, args, pos)
			for _, ca := range f.con.CallAsserts {
				if ca.Callee == disp && ca.N == n && ca.After {
					env := e.cellEnv(f, pos, e.cur)
					if sig := c.Signature(); r != nil && sig != nil && sig.Results().Len() > 0 {
						env.names["ret0"] = TV{V: r, Ty: sig.Results().At(0).Type()}
					}
					tv := e.evalClauseVal(env, ca.Clause)
					v, _ := e.materialize(env, tv, types.Typ[types.Uint64])
					e.setVar("G|"+ca.Var, e.scalar(v, SBV64))
					if e.dry == 0 {
						f.assertsSeen[fmt.Sprintf("%s#%d", ca.Callee, ca.N)] = true
					}
				}
			}
			return r
		}
		return e.builtin(f, fv.Name(), c, args, pos)
	case *ssa.Function:
		return e.callStatic(f, fv, args, nil, pos, pack, freshResults)
	case *ssa.MakeClosure:
		fn := fv.Fn.(*ssa.Function)
		var bs []Val
		for _, b := range fv.Bindings {
			bs = append(bs, e.val(b))
		}
		return e.callStatic(f, fn, args, bs, pos, pack, freshResults)
	}
	// dynamic call through a function value
	if fn, ok := e.val(c.Value).(Fn); ok && fn.F != nil {
		return e.callStatic(f, fn.F, args, fn.Bind, pos, pack, freshResults)
	}
	if sel, ok := e.val(c.Value).(FnSel); ok {
		// the variable holds one of two known functions: case split
		return e.callSel(f, sel, args, pos, pack, freshResults)
	}
	if f.con != nil && len(f.con.CallAsserts) > 0 {
		// call-site assertions on calls through a function value: "<pkg.FuncType>#n"
		// (named function types) or "dynamic#n"
		disp := "dynamic"
		if isNamedOrAlias(c.Value.Type()) {
			disp = typeKey(c.Value.Type())
		}
		n := f.ncallAll[disp]
		f.ncallAll[disp]++
		for _, ca := range f.con.CallAsserts {
			if ca.Callee == disp && ca.N == n && !ca.After {
				env := e.cellEnv(f, pos, e.cur.clone())
				sig, _ := c.Value.Type().Underlying().(*types.Signature)
				for i, a := range args {
					if sig != nil && i < sig.Params().Len() {
						env.names[fmt.Sprintf("arg%d", i)] = TV{V: a, Ty: sig.Params().At(i).Type()}
					}
				}
				e.callAssert(f, disp, n, ca, env, pos)
			}
		}
	}
	if n := c.Value.Type(); isNamedOrAlias(n) {
		// a callback of a named function type with an assumed contract
		key := "functype " + typeKey(n)
		if os.Getenv("LSVC_DEBUG") != "" {
			fmt.Fprintf(os.Stderr, "functype lookup %q found=%v\n", key, e.L.Contracts.ByKey["|"+key] != nil)
		}
		if con := e.L.Contracts.ByKey["|"+key]; con != nil {
			if sig, ok := n.Underlying().(*types.Signature); ok {
				r := pack(e.applyContract(f, con, key, args, sig, nil, pos))
				e.noteTrusted("callback contract: " + key)
				return r
			}
		}
	}
	e.abstract("dynamic-call:" + typeKey(c.Value.Type()))
	e.havocAll("dynamic call")
	e.havocClosureCells(args, map[*ssa.Function]bool{})
	return freshResults("dyn")
}

func (e *Enc) noteTrusted(s string) {
	if e.dry == 0 {
		e.trusted[s]++
	}
}

func (e *Enc) callStatic(f *frame, fn *ssa.Function, args []Val, bind []Val, pos token.Pos, pack func([]Val) Val, freshResults func(string) Val) Val {
	var after []CallAssert
	if f.con != nil && len(f.con.CallAsserts) > 0 {
		disp := e.L.funcName(fn)
		n := f.ncallAll[disp]
		for _, ca := range f.con.CallAsserts {
			if ca.Callee == disp && ca.N == n && ca.After {
				after = append(after, ca)
			}
		}
	}
	r := e.callStatic0(f, fn, args, bind, pos, pack, freshResults)
	for _, ca := range after {
		env := e.cellEnv(f, pos, e.cur)
		// results of the call: ret0, ret1, ...
		res := fn.Signature.Results()
		if t, ok := r.(Tup); ok {
			for i, v := range t.V {
				env.names[fmt.Sprintf("ret%d", i)] = TV{V: v, Ty: res.At(i).Type()}
			}
		} else if r != nil && res.Len() == 1 {
			env.names["ret0"] = TV{V: r, Ty: res.At(0).Type()}
		}
		tv := e.evalClauseVal(env, ca.Clause)
		v, _ := e.materialize(env, tv, types.Typ[types.Uint64])
		e.setVar("G|"+ca.Var, e.scalar(v, SBV64))
		if e.dry == 0 {
			f.assertsSeen[fmt.Sprintf("%s#%d", ca.Callee, ca.N)] = true
		}
	}
	return r
}

func (e *Enc) callStatic0(f *frame, fn *ssa.Function, args []Val, bind []Val, pos token.Pos, pack func([]Val) Val, freshResults func(string) Val) Val {
	name := fn.String()
	if o := fn.Origin(); o != nil {
		name = o.String()
	}
	if f.con != nil && len(f.con.CallAsserts) > 0 {
		disp := e.L.funcName(fn)
		n := f.ncallAll[disp]
		f.ncallAll[disp]++
		for _, ca := range f.con.CallAsserts {
			if ca.Callee == disp && ca.N == n && !ca.After {
				env := e.cellEnv(f, pos, e.cur.clone())
				// arguments of the call: arg0, arg1, ... (receiver first)
				for i, a := range args {
					if i < len(fn.Params) {
						env.names[fmt.Sprintf("arg%d", i)] = TV{V: a, Ty: fn.Params[i].Type()}
					}
				}
				e.callAssert(f, disp, n, ca, env, pos)
			}
		}
	}
	if r, ok := e.intrinsic(f, fn, name, args, pos); ok {
		return r
	}
	if hof, ok := e.higherOrder(f, fn, name, args, pos); ok {
		return hof
	}
	con := e.L.contractOf(fn)
	if con != nil && !con.Inline {
		return pack(e.applyContract(f, con, e.L.funcName(fn), args, fn.Signature, fn, pos))
	}
	if (con != nil && con.Inline) || fn.Parent() != nil || bind != nil {
		// inline: tiny leaf helpers marked inline, and closures called directly
		if e.dry == 0 {
			e.inlined[e.L.funcName(fn)]++
		}
		_, rs := e.runBody(fn, args, bind, false, nil)
		return pack(rs)
	}
	if isPureName(name) {
		e.noteTrusted("pure:" + name)
		r := freshResults(fn.Name())
		e.pureResultFacts(name, r)
		return r
	}
	if e.autoInlinable(fn) {
		// a small unexported helper of the repository without a contract (the
		// result of an "extract function" refactoring, a strategy selector, ...):
		// its body is executed in place instead of forgetting everything. No
		// obligations are generated inside it (none were before, when the call
		// was an unknown callee).
		if e.dry == 0 {
			e.inlined["auto:"+e.L.funcName(fn)]++
		}
		e.noObl++
		e.autoDepth++
		e.nextHookFrom, e.nextHookPos = f, pos
		_, rs := e.runBody(fn, args, bind, false, nil)
		e.nextHookFrom = nil
		e.autoDepth--
		e.noObl--
		return pack(rs)
	}
	e.abstract("call-without-contract:" + name)
	e.havocAll("call " + name)
	e.havocClosureCells(args, map[*ssa.Function]bool{})
	return freshResults(fn.Name())
}

// havocClosureCells: an unknown callee may run the closures it is handed any
// number of times; the local variables those closures capture (kept as cells
// because their address never escapes) change with it.
func (e *Enc) havocClosureCells(vals []Val, seen map[*ssa.Function]bool) {
	for _, v := range vals {
		fnv, ok := v.(Fn)
		if !ok || fnv.F == nil || seen[fnv.F] {
			continue
		}
		seen[fnv.F] = true
		for _, b := range fnv.Bind {
			switch x := b.(type) {
			case Ptr:
				if x.K == pCell && x.Cell != nil {
					t := deref(x.Cell.Type())
					nv := e.freshVal(t, "cc_"+x.Cell.Comment)
					e.assumeLoaded(t, nv)
					e.cur.cells[x.Cell] = nv
					if e.writesC != nil {
						e.writesC[x.Cell] = true
					}
				}
			case Fn:
				e.havocClosureCells([]Val{x}, seen)
			}
		}
	}
}

// pureResultFacts: fmt.Errorf / errors.New never return nil.
func (e *Enc) pureResultFacts(name string, r Val) {
	switch name {
	case "fmt.Errorf", "errors.New":
		if i, ok := r.(Ifc); ok {
			// a new error value: not nil and none of the package-level
			// sentinels (their identities start at 0x7000…)
			e.assume(and(not(eq(i.Id, bv64(0))), ult(i.Id, bv64(0x7000_0000_0000_0000))))
		}
	}
}

// applyContract: assert pre, havoc modifies, assume post.
func (e *Enc) applyContract(f *frame, con *Contract, display string, args []Val, sig *types.Signature, fn *ssa.Function, pos token.Pos) []Val {
	if e.dry == 0 {
		if con.Trusted {
			e.trusted["contract:"+display]++
		} else {
			e.modular[display]++
		}
	}
	top := e.frames[0]
	n := top.ncall[display]
	top.ncall[display]++
	env := e.callEnv(con, args, sig, fn)
	env.st = e.cur
	env.old = e.cur
	e.evalLets(env, con)
	for _, r := range con.Requires {
		if strings.Contains(r.Text, "held(") && !e.lockCheckOn() {
			// lock-state preconditions bind callers that are under the lock
			// discipline themselves (lockcheck); elsewhere the lock state is
			// not tracked
			continue
		}
		g := e.evalBool(env, r)
		e.oblige("pre", fmt.Sprintf("%s/pre.%s#%d.%s", top.name, display, n, r.Label), g, pos)
		e.assume(g)
	}
	old := e.cur.clone()
	// havoc (the locations named in modifies are resolved in the pre-state)
	env.st = old
	if con.ModAll || con.ModHeap {
		// a callee that may change anything may also run the closures it is given
		e.havocClosureCells(args, map[*ssa.Function]bool{})
	}
	if con.ModAll {
		e.havocAll("modifies * of " + display)
		// "modifies *" includes the ghost state (an unknown callee, in contrast, cannot touch it)
		var gs []string
		for g := range e.L.Contracts.GhostNames {
			gs = append(gs, g)
		}
		for _, g := range []string{"last", "lastApp", "unpub", "uncap", "pend", "dirty", "curTxn", "inTxn", "ownTxn", "ownTxnRecorded"} {
			if !e.L.Contracts.GhostNames[g] {
				gs = append(gs, g)
			}
		}
		sort.Strings(gs)
		for _, g := range gs {
			if strings.HasPrefix(g, "loc_") {
				continue // ghost variables local to the calling function
			}
			e.setVar("G|"+g, e.freshT("hvg_"+g, SBV64))
		}
		// locations named next to "*" are forgotten even if they are stable
		// (stable fields survive havoc-all: only contracts that name them change them)
		for _, m := range con.Modifies {
			e.havocLoc(env, m, con)
		}
	} else {
		if con.ModHeap {
			e.havocAll("modifies heap of " + display)
		}
		for _, m := range con.Modifies {
			e.havocLoc(env, m, con)
		}
		if !con.Pure {
			e.bumpAlloc()
		}
	}
	// results
	var rs []Val
	res := sig.Results()
	names := e.resultNames(con, sig, fn)
	for i := 0; i < res.Len(); i++ {
		var v Val
		if con.Function {
			v = e.funcResult(con, display, i, res.At(i).Type(), args, sig, fn)
		} else {
			v = e.freshVal(res.At(i).Type(), "r_"+names[i])
		}
		e.assumeLoaded(res.At(i).Type(), v)
		rs = append(rs, v)
		env.names[names[i]] = TV{V: v, Ty: res.At(i).Type()}
	}
	env.st = e.cur
	env.old = old
	e.evalLets(env, con)
	for _, c := range con.Ensures {
		if e.skipAssume[display+"/"+strings.TrimSuffix(c.Label, "!")] {
			continue // this check does not need the clause (fewer assumptions is sound)
		}
		g := e.evalBool(env, c)
		// a clause with a recorded finding is only proved outside the finding's
		// class: callers may assume no more than that
		if kf := e.L.Known.matchAny(display + "/post." + strings.TrimSuffix(c.Label, "!")); kf != nil {
			if ex, err := parseExprCached(kf.Class); err == nil {
				g = or(g, e.evalBool(env, Clause{Text: kf.Class, Expr: ex, File: "KNOWN_FINDINGS.txt"}))
			}
		}
		e.assume(g)
	}
	for _, g := range con.Ghost {
		tv := e.eval(env, g.Expr)
		v, _ := e.materialize(env, tv, types.Typ[types.Uint64])
		e.setVar("G|"+g.Var, e.scalar(v, SBV64))
	}
	return rs
}

func (e *Enc) evalLets(env *Env, con *Contract) {
	for _, l := range con.Lets {
		func() {
			defer func() {
				if r := recover(); r != nil {
					if _, ok := r.(evalError); ok {
						// a let over names that do not exist here (locals of the
						// function at a call site, ...) stays undefined: a clause
						// that uses it reports the unknown name
						return
					}
					panic(r)
				}
			}()
			env.where = fmt.Sprintf("%s:%d", shortFile(l.File), l.Line)
			env.names[l.Label] = e.eval(env, l.Expr)
		}()
	}
}

func (e *Enc) resultNames(con *Contract, sig *types.Signature, fn *ssa.Function) []string {
	res := sig.Results()
	out := make([]string, res.Len())
	for i := 0; i < res.Len(); i++ {
		n := res.At(i).Name()
		if con != nil && con.Extern && i < len(con.Results) {
			n = con.Results[i]
		}
		if n == "" || n == "_" {
			n = fmt.Sprintf("r%d", i)
		}
		out[i] = n
	}
	return out
}

func (e *Enc) paramNames(con *Contract, sig *types.Signature, fn *ssa.Function) []string {
	var out []string
	if fn != nil && len(fn.Blocks) > 0 || fn != nil && len(fn.Params) > 0 {
		for _, p := range fn.Params {
			out = append(out, p.Name())
		}
		return out
	}
	if con != nil && con.Extern {
		return con.Params
	}
	if sig.Recv() != nil {
		out = append(out, sig.Recv().Name())
	}
	for i := 0; i < sig.Params().Len(); i++ {
		out = append(out, sig.Params().At(i).Name())
	}
	return out
}

func (e *Enc) callEnv(con *Contract, args []Val, sig *types.Signature, fn *ssa.Function) *Env {
	env := &Env{names: map[string]TV{}, oldNames: map[string]TV{}}
	if pkg := e.L.TypesPkgs[con.Pkg]; pkg != nil {
		env.pkg = pkg
	}
	names := e.paramNames(con, sig, fn)
	var ptypes []types.Type
	if fn != nil && len(fn.Params) > 0 {
		for _, p := range fn.Params {
			ptypes = append(ptypes, p.Type())
		}
	} else {
		if sig.Recv() != nil {
			ptypes = append(ptypes, sig.Recv().Type())
		}
		for i := 0; i < sig.Params().Len(); i++ {
			ptypes = append(ptypes, sig.Params().At(i).Type())
		}
	}
	if con.Extern && len(con.Params) == len(args) {
		names = con.Params
	}
	for i, a := range args {
		if i >= len(names) {
			break
		}
		var ty types.Type
		if i < len(ptypes) {
			ty = ptypes[i]
		}
		if names[i] == "" || names[i] == "_" {
			continue
		}
		env.names[names[i]] = TV{V: a, Ty: ty}
		env.oldNames[names[i]] = TV{V: a, Ty: ty}
	}
	return env
}

// havocLoc forgets one location named in a modifies clause:
//   x.f        heap field f of the object x points to
//   *x         all fields of the object x points to
//   bytes(s)   the contents of the backing array of slice s
func (e *Enc) havocLoc(env *Env, loc string, con *Contract) {
	defer func() {
		if r := recover(); r != nil {
			if ee, ok := r.(evalError); ok {
				e.errs = append(e.errs, fmt.Sprintf("%s: modifies %s: %s", con.Key, loc, ee.msg))
				return
			}
			panic(r)
		}
	}()
	env.where = "modifies " + loc
	if strings.HasPrefix(loc, "bytes(") && strings.HasSuffix(loc, ")") {
		ex, err := parseExprCached(loc[6 : len(loc)-1])
		if err != nil {
			e.errs = append(e.errs, err.Error())
			return
		}
		s := e.asSl(env, e.eval(env, ex))
		m := e.byteMem(e.cur)
		e.setVarAt("M|byte", s.Arr, store(m, s.Arr, e.freshT("hvarr", SArr)))
		return
	}
	if strings.HasPrefix(loc, "ghost_") {
		e.setVar("G|"+strings.TrimPrefix(loc, "ghost_"), e.freshT("g_"+loc, SBV64))
		return
	}
	if strings.HasPrefix(loc, "global:") {
		name := strings.TrimPrefix(loc, "global:")
		if env.pkg != nil {
			if o, ok := env.pkg.Scope().Lookup(name).(*types.Var); ok {
				if g := e.L.globalByObj(o); g != nil {
					gt := deref(g.Type())
					v := e.freshVal(gt, "hvg_"+name)
					e.assumeLoaded(gt, v)
					e.storeGlobal(g, nil, gt, v)
					return
				}
			}
		}
		e.errs = append(e.errs, fmt.Sprintf("%s: modifies %s: no such package variable", con.Key, loc))
		return
	}
	target := loc
	all := false
	if strings.HasPrefix(loc, "*") {
		target = loc[1:]
		all = true
	}
	var base string
	var field string
	if all {
		base = target
	} else {
		i := strings.LastIndex(target, ".")
		if i < 0 {
			e.errs = append(e.errs, fmt.Sprintf("%s: modifies %s: expected x.f, *x or bytes(s)", con.Key, loc))
			return
		}
		base, field = target[:i], target[i+1:]
	}
	ex, err := parseExprCached(base)
	if err != nil {
		e.errs = append(e.errs, err.Error())
		return
	}
	b := e.eval(env, ex)
	p, ok := b.V.(Ptr)
	if !ok || p.K != pHeap {
		e.evalFail(env, "modifies target is not a heap pointer (%T)", b.V)
	}
	objT := p.Elem
	var path []int
	path = append(path, p.Path...)
	ft := objT
	if !all {
		st, ok := objT.Underlying().(*types.Struct)
		if !ok {
			e.evalFail(env, "modifies %s: not a struct", loc)
		}
		found := false
		for i := 0; i < st.NumFields(); i++ {
			if st.Field(i).Name() == field {
				path = append(path, i)
				ft = st.Field(i).Type()
				found = true
			}
		}
		if !found {
			e.evalFail(env, "modifies %s: no such field", loc)
		}
	}
	np := Ptr{K: pHeap, Ref: p.Ref, Obj: p.Obj, Path: path, Elem: ft}
	v := e.freshVal(ft, "hv_"+field)
	e.assumeLoaded(ft, v)
	e.storeTo(np, ft, v)
}

// ------------------------------------------------------------------ builtins

func (e *Enc) builtin(f *frame, name string, c *ssa.CallCommon, args []Val, pos token.Pos) Val {
	switch name {
	case "len":
		switch s := args[0].(type) {
		case Sl:
			return Sc{s.Len}
		case Str:
			return Sc{s.Len}
		}
		e.abstract("len-of-" + fmt.Sprintf("%T", args[0]))
		r := e.freshT("len", SBV64)
		e.assume(and(sle(bv64(0), r), ule(r, bv64(1<<48))))
		return Sc{r}
	case "cap":
		if s, ok := args[0].(Sl); ok {
			return Sc{s.Cap}
		}
		e.abstract("cap-of-" + fmt.Sprintf("%T", args[0]))
		return Sc{e.freshT("cap", SBV64)}
	case "append":
		return e.appendBuiltin(f, c, args, pos)
	case "copy":
		dst, ok1 := args[0].(Sl)
		var src Sl
		ok2 := false
		switch s := args[1].(type) {
		case Sl:
			src, ok2 = s, true
		case Str:
			src, ok2 = Sl{Arr: s.Arr, Off: s.Off, Len: s.Len, Cap: s.Len, Elem: types.Typ[types.Uint8]}, true
		}
		if !ok1 || !ok2 || !isByte(dst.Elem) {
			e.abstract("copy-non-bytes")
			e.havocAll("copy")
			return Sc{e.freshT("n", SBV64)}
		}
		n := e.def("copyn", ite(ult(dst.Len, src.Len), dst.Len, src.Len))
		e.copyBytes(dst, src, n)
		return Sc{n}
	case "min", "max":
		a, b := args[0].(Sc), args[1].(Sc)
		signed := isSigned(c.Args[0].Type())
		lt := ult(a.T, b.T)
		if signed {
			lt = slt(a.T, b.T)
		}
		if name == "min" {
			return Sc{ite(lt, a.T, b.T)}
		}
		return Sc{ite(lt, b.T, a.T)}
	case "delete":
		e.mapDelete(f, c, args)
		return nil
	case "close":
		e.hookChanOp(f, "close", c.Args[0], pos)
		return nil
	case "ssa:wrapnilchk":
		return args[0]
	case "ssa:deferstack":
		return Op{bv64(0), nil}
	case "print", "println":
		return nil
	}
	e.abstract("builtin:" + name)
	return nil
}

// copyBytes: dst[0:n] = src[0:n] (memmove semantics; the source is read from
// the memory before the copy).
func (e *Enc) copyBytes(dst, src Sl, n T) {
	m := e.byteMem(e.cur)
	na := e.freshT("cp", SArr)
	srcA := e.def("cpsrc", e.memArr(e.cur, src.Arr))
	dstA := e.def("cpdst", sel(m, dst.Arr))
	e.assume(T{fmt.Sprintf("(forall ((j (_ BitVec 64))) (! (= (select %s j) (ite (bvult (bvsub j %s) %s) (select %s (bvadd %s (bvsub j %s))) (select %s j))) :pattern ((select %s j))))",
		na.S, dst.Off.S, n.S, srcA.S, src.Off.S, dst.Off.S, dstA.S, na.S), SBool})
	e.setVarAt("M|byte", dst.Arr, store(m, dst.Arr, na))
}

func constInt(t T) (uint64, bool) {
	if strings.HasPrefix(t.S, "#x") && len(t.S) == 18 {
		var v uint64
		if _, err := fmt.Sscanf(t.S[2:], "%x", &v); err == nil {
			return v, true
		}
	}
	return 0, false
}

func (e *Enc) appendBuiltin(f *frame, c *ssa.CallCommon, args []Val, pos token.Pos) Val {
	s, ok := args[0].(Sl)
	if !ok {
		e.abstract("append-shape")
		e.havocAll("append")
		return e.freshVal(c.Signature().Results().At(0).Type(), "app")
	}
	var t Sl
	switch x := args[1].(type) {
	case Sl:
		t = x
	case Str:
		t = Sl{Arr: x.Arr, Off: x.Off, Len: x.Len, Cap: x.Len, Elem: types.Typ[types.Uint8]}
	default:
		e.abstract("append-arg-shape")
		e.havocAll("append")
		return e.freshVal(c.Signature().Results().At(0).Type(), "app")
	}
	if !isByte(s.Elem) {
		return e.appendGeneric(s, t)
	}
	n := t.Len
	newLen := e.def("applen", add(s.Len, n))
	fits := e.def("appfits", ule(newLen, s.Cap))
	m := e.byteMem(e.cur)
	fresh := e.newArr()
	newCap := e.freshT("appcap", SBV64)
	e.assume(and(ule(newLen, newCap), ule(newCap, bv64(1<<48))))
	srcA := e.def("appsrc", e.memArr(e.cur, t.Arr))
	oldA := e.def("appold", sel(m, s.Arr))
	inPlace := e.freshT("appA", SArr)
	realloc := e.freshT("appB", SArr)
	e.noteSplit(fits)
	// inPlace equals the old array when the append does not fit, so that the
	// new memory needs no ite over arrays:
	//   M' = store(store(M, s.arr, inPlace), fresh, realloc)
	// (the fresh array id is unreachable when the append was done in place)
	if k, isC := constInt(n); isC && k <= 16 {
		// explicit stores: quantifier-free
		a1 := oldA
		var cs []T
		for i := uint64(0); i < k; i++ {
			a1 = store(a1, add(add(s.Off, s.Len), bv64(i)), sel(srcA, add(t.Off, bv64(i))))
			cs = append(cs, eq(sel(realloc, add(s.Len, bv64(i))), sel(srcA, add(t.Off, bv64(i)))))
		}
		e.assume(eq(inPlace, ite(fits, a1, oldA)))
		e.assume(and(cs...))
		e.assume(T{fmt.Sprintf("(forall ((j (_ BitVec 64))) (! (=> (bvult j %s) (= (select %s j) (select %s (bvadd %s j)))) :pattern ((select %s j))))",
			s.Len.S, realloc.S, oldA.S, s.Off.S, realloc.S), SBool})
	} else {
		base := e.def("appbase", add(s.Off, s.Len))
		e.assume(T{fmt.Sprintf("(forall ((j (_ BitVec 64))) (! (= (select %s j) (ite (and %s (bvult (bvsub j %s) %s)) (select %s (bvadd %s (bvsub j %s))) (select %s j))) :pattern ((select %s j))))",
			inPlace.S, fits.S, base.S, n.S, srcA.S, t.Off.S, base.S, oldA.S, inPlace.S), SBool})
		e.assume(T{fmt.Sprintf("(forall ((j (_ BitVec 64))) (! (=> (bvult j %s) (= (select %s j) (ite (bvult j %s) (select %s (bvadd %s j)) (select %s (bvadd %s (bvsub j %s)))))) :pattern ((select %s j))))",
			newLen.S, realloc.S, s.Len.S, oldA.S, s.Off.S, srcA.S, t.Off.S, s.Len.S, realloc.S), SBool})
	}
	e.setVarAt("M|byte", s.Arr, store(m, s.Arr, inPlace))
	e.setVarAt("M|byte", fresh, store(e.byteMem(e.cur), fresh, realloc))
	return e.nameVal(Sl{Arr: ite(fits, s.Arr, fresh), Off: ite(fits, s.Off, bv64(0)), Len: newLen, Cap: ite(fits, s.Cap, newCap), Elem: s.Elem}, "app")
}

// appendGeneric: append on a slice of non-byte elements. Length is exact,
// contents of the appended elements are kept per leaf when the appended part
// has constant length 1 (the common `append(xs, x)`), otherwise abstracted.
func (e *Enc) appendGeneric(s, t Sl) Val {
	newLen := e.def("applen", add(s.Len, t.Len))
	fits := e.def("appfits", ule(newLen, s.Cap))
	fresh := e.newArr()
	newCap := e.freshT("appcap", SBV64)
	e.assume(and(ule(newLen, newCap), ule(newCap, bv64(1<<48))))
	res := Sl{Arr: ite(fits, s.Arr, fresh), Off: ite(fits, s.Off, bv64(0)), Len: newLen, Cap: ite(fits, s.Cap, newCap), Elem: s.Elem}
	res = e.nameVal(res, "app").(Sl)
	k, isC := constInt(t.Len)
	for _, l := range leavesOf(s.Elem) {
		key := memKey(s.Elem, l.Name)
		m := e.getVar(e.cur, key, memSort(l.Sort))
		na := e.freshT("appg", "(Array (_ BitVec 64) "+l.Sort+")")
		oldA := sel(m, s.Arr)
		// prefix preserved
		e.assume(T{fmt.Sprintf("(forall ((j (_ BitVec 64))) (! (=> (bvult j %s) (= (select %s (bvadd %s j)) (select %s (bvadd %s j)))) :pattern ((select %s (bvadd %s j)))))",
			s.Len.S, na.S, res.Off.S, oldA.S, s.Off.S, na.S, res.Off.S), SBool})
		if isC && k <= 4 {
			srcA := sel(m, t.Arr)
			for i := uint64(0); i < k; i++ {
				e.assume(eq(sel(na, add(add(res.Off, s.Len), bv64(i))), sel(srcA, add(t.Off, bv64(i)))))
			}
		} else {
			e.abstract("append-generic-contents")
		}
		// in place: other indices of the old array unchanged
		e.assume(implies(fits, T{fmt.Sprintf("(forall ((j (_ BitVec 64))) (! (=> (not (bvult (bvsub j (bvadd %s %s)) %s)) (= (select %s j) (select %s j))) :pattern ((select %s j))))",
			s.Off.S, s.Len.S, t.Len.S, na.S, oldA.S, na.S), SBool}))
		e.setVarAt(key, s.Arr, store(m, res.Arr, na))
		if e.writesV != nil {
			e.writesIdx[key] = append(e.writesIdx[key], fresh)
		}
	}
	return res
}

// ------------------------------------------------------------------ intrinsics (stdlib functions with built-in semantics)

func (e *Enc) intrinsic(f *frame, fn *ssa.Function, name string, args []Val, pos token.Pos) (Val, bool) {
	if e.mutexOp(f, name, args, pos) {
		return nil, true
	}
	switch name {
	case "bytes.Equal":
		a, b := args[0].(Sl), args[1].(Sl)
		e.noteTrusted("builtin:bytes.Equal")
		return Sc{e.def("bytesEqual", e.seqEq(a, b))}, true
	case "bytes.Compare":
		a, b := args[0].(Sl), args[1].(Sl)
		e.noteTrusted("builtin:bytes.Compare")
		return Sc{e.bytesCompare(a, b)}, true
	case "strings.HasPrefix":
		if p, ok := e.constStr(args[1]); ok {
			e.noteTrusted("builtin:strings.HasPrefix")
			s := args[0].(Str)
			return Sc{e.def("hasPrefix", e.hasPrefix(s, p))}, true
		}
	}
	if strings.HasPrefix(name, "(encoding/binary.bigEndian).") || strings.HasPrefix(name, "(encoding/binary.littleEndian).") {
		big := strings.Contains(name, "bigEndian")
		m := name[strings.LastIndex(name, ".")+1:]
		nb := 0
		switch {
		case strings.HasSuffix(m, "64"):
			nb = 8
		case strings.HasSuffix(m, "32"):
			nb = 4
		case strings.HasSuffix(m, "16"):
			nb = 2
		}
		s, ok := args[1].(Sl)
		if nb == 0 || !ok {
			return nil, false
		}
		e.noteTrusted("builtin:encoding/binary")
		// the stdlib does `_ = b[nb-1]`: bounds check
		e.safety(f, "index", ult(bv64(uint64(nb-1)), s.Len), pos)
		if strings.HasPrefix(m, "Uint") {
			return Sc{e.def("rd", e.readInt(e.cur, s, bv64(0), nb, big))}, true
		}
		if strings.HasPrefix(m, "PutUint") {
			v := args[2].(Sc).T
			mem := e.byteMem(e.cur)
			a := sel(mem, s.Arr)
			for i := 0; i < nb; i++ {
				var byt T
				if big {
					byt = extract(v, 8*(nb-i)-1, 8*(nb-i-1))
				} else {
					byt = extract(v, 8*i+7, 8*i)
				}
				a = store(a, add(s.Off, bv64(uint64(i))), byt)
			}
			e.setVarAt("M|byte", s.Arr, store(mem, s.Arr, a))
			return nil, true
		}
	}
	return nil, false
}

func (e *Enc) constStr(v Val) (string, bool) {
	s, ok := v.(Str)
	if !ok {
		return "", false
	}
	for k, c := range e.strConsts {
		if c.Arr.S == s.Arr.S && c.Off.S == s.Off.S && c.Len.S == s.Len.S {
			return k, true
		}
	}
	return "", false
}

func (e *Enc) hasPrefix(s Str, p string) T {
	cs := []T{ule(bv64(uint64(len(p))), s.Len)}
	a := e.memArr(e.cur, s.Arr)
	for i := 0; i < len(p); i++ {
		cs = append(cs, eq(sel(a, add(s.Off, bv64(uint64(i)))), bv(uint64(p[i]), 8)))
	}
	return and(cs...)
}

// seqEq: same length and same bytes, in the current memory.
func (e *Enc) seqEq(a, b Sl) T { return e.seqEq2(e.cur, a, e.cur, b) }

func (e *Enc) seqEq2(sa *State, a Sl, sb *State, b Sl) T {
	e.usesSeq = true
	ma := e.constFor("sqa", e.memArr(sa, a.Arr))
	mb := e.constFor("sqb", e.memArr(sb, b.Arr))
	e.recordSeqPair(seqTerm{arr: ma, s: a}, seqTerm{arr: mb, s: b})
	return T{fmt.Sprintf("(= %s %s)", seqID(ma, a), seqID(mb, b)), SBool}
}

// seqOf is the abstract sequence id of a byte slice (sort BSeq).
func (e *Enc) seqOf(st *State, a Sl) T {
	e.usesSeq = true
	ma := e.constFor("sqa", e.memArr(st, a.Arr))
	if e.loopDry == 0 {
		e.seqTerms = append(e.seqTerms, seqAt{t: seqTerm{arr: ma, s: a}, at: len(e.lines)})
		if e.seqByID == nil {
			e.seqByID = map[string]seqTerm{}
		}
		e.seqByID[seqID(ma, a)] = seqTerm{arr: ma, s: a}
	}
	return T{seqID(ma, a), "BSeq"}
}

func seqID(arr T, s Sl) string {
	return fmt.Sprintf("(seqid %s %s %s)", arr.S, s.Off.S, s.Len.S)
}

type seqTerm struct {
	arr T // array contents term
	s   Sl
}

type seqAt struct {
	t   seqTerm
	at  int
	lex bool // took part in a bytes.Compare (needs the order axioms)
}

type seqPair struct {
	a, b seqTerm
	at   int // line index when recorded
}

// recordSeqPair remembers that two byte sequences were compared; the query
// builder adds the extensionality instance for the pair:
//   seqid(a) = seqid(b)  <=>  same length and same bytes
func (e *Enc) recordSeqPair(a, b seqTerm) {
	if e.loopDry > 0 {
		return
	}
	if e.seqByID == nil {
		e.seqByID = map[string]seqTerm{}
	}
	e.seqByID[seqID(a.arr, a.s)] = a
	e.seqByID[seqID(b.arr, b.s)] = b
	e.seqTerms = append(e.seqTerms, seqAt{t: a, at: len(e.lines)}, seqAt{t: b, at: len(e.lines)})
	e.seqPairs = append(e.seqPairs, seqPair{a, b, len(e.lines)})
}

// bytesCompare returns a BV64 in {-1,0,1}; the order is the total order lexLE
// on abstract sequence ids (DESIGN 4.2), equality is extensional.
func (e *Enc) bytesCompare(a, b Sl) T {
	e.usesSeq = true
	e.usesLex = true
	ma := e.constFor("cma", e.memArr(e.cur, a.Arr))
	mb := e.constFor("cmb", e.memArr(e.cur, b.Arr))
	e.recordSeqPair(seqTerm{arr: ma, s: a}, seqTerm{arr: mb, s: b})
	if e.loopDry == 0 && len(e.seqTerms) >= 2 {
		e.seqTerms[len(e.seqTerms)-1].lex = true
		e.seqTerms[len(e.seqTerms)-2].lex = true
	}
	ia := T{seqID(ma, a), "BSeq"}
	ib := T{seqID(mb, b), "BSeq"}
	r := e.freshT("cmp", SBV64)
	one := bv64(1)
	minus := bv64(^uint64(0))
	e.assume(or(eq(r, bv64(0)), eq(r, one), eq(r, minus)))
	e.assume(eq(eq(r, bv64(0)), T{fmt.Sprintf("(= %s %s)", ia.S, ib.S), SBool}))
	e.assume(eq(sle(r, bv64(0)), T{fmt.Sprintf("(lexle %s %s)", ia.S, ib.S), SBool}))
	return r
}


// funcResult: result i of a deterministic pure function is an uninterpreted
// function of the scalar leaves of its arguments.
func (e *Enc) funcResult(con *Contract, display string, i int, rt types.Type, args []Val, sig *types.Signature, fn *ssa.Function) Val {
	var leaves []T
	var ptypes []types.Type
	if fn != nil {
		for _, p := range fn.Params {
			ptypes = append(ptypes, p.Type())
		}
	}
	for k, a := range args {
		if k < len(ptypes) {
			leaves = append(leaves, e.flatten(ptypes[k], a)...)
		}
	}
	for _, g := range con.Reads {
		leaves = append(leaves, e.getVar(e.cur, "G|"+g, SBV64))
	}
	ls := leavesOf(rt)
	if e.ufDecls == nil {
		e.ufDecls = map[string]string{}
	}
	var sorts []string
	for _, l := range leaves {
		sorts = append(sorts, l.Sort)
	}
	mk := func(k int) T {
		name := "uf_" + sanitize(display) + fmt.Sprintf("_%d_%d", i, k)
		e.ufDecls[name] = fmt.Sprintf("(declare-fun %s (%s) %s)", name, strings.Join(sorts, " "), ls[k].Sort)
		t := T{"(" + name, ls[k].Sort}
		for _, l := range leaves {
			t.S += " " + l.S
		}
		t.S += ")"
		if len(leaves) == 0 {
			t.S = name
		}
		return t
	}
	if len(ls) != 1 {
		k := 0
		v := e.rebuild(rt, func() T { t := e.def("fr", mk(k)); k++; return t })
		e.assumeTypeInv(rt, v)
		return v
	}
	t := mk(0)
	seen := false
	for _, in := range e.inputs {
		if in.Expr == t.S {
			seen = true
		}
	}
	if !seen && e.loopDry == 0 {
		e.inputs = append(e.inputs, InputVar{Name: "uf:" + display, Kind: "int", Bits: sortWidth(ls[0].Sort), Expr: t.S})
	}
	return e.rebuild(rt, func() T { return e.def("fr", t) })
}


func (e *Enc) callSel(f *frame, sel FnSel, args []Val, pos token.Pos, pack func([]Val) Val, freshResults func(string) Val) Val {
	before := e.cur.clone()
	saved := e.reach
	one := func(v Val, cond T) (Val, *State, T) {
		e.cur = before.clone()
		e.reach = e.def("selreach", and(saved, cond))
		var r Val
		switch x := v.(type) {
		case Fn:
			r = e.callStatic(f, x.F, args, x.Bind, pos, pack, freshResults)
		case FnSel:
			r = e.callSel(f, x, args, pos, pack, freshResults)
		default:
			e.abstract("dynamic-call")
			e.havocAll("dynamic call")
			e.havocClosureCells(args, map[*ssa.Function]bool{})
			r = freshResults("dyn")
		}
		// the continuation is reached only where the callee returned normally
		return r, e.cur, e.reach
	}
	ra, sa, reachA := one(sel.A, sel.C)
	rb, sb, reachB := one(sel.B, not(sel.C))
	reach, st := e.mergeStates([]edgeIn{{cond: reachA, st: sa}, {cond: reachB, st: sb}}, "sel")
	e.cur = st
	e.reach = reach
	if ra == nil || rb == nil {
		return ra
	}
	return e.nameVal(e.iteVal(reachA, ra, rb), "selres")
}

// callAssert: one "at_call <callee>#n assert label: e" at its call site. A
// label ending in "!" is proved and then assumed (a stepping stone for the
// obligations that follow); such a clause never combines with a known finding.
func (e *Enc) callAssert(f *frame, disp string, n int, ca CallAssert, env *Env, pos token.Pos) {
	label := ca.Clause.Label
	if label == "" {
		label = "a"
	}
	stone := strings.HasSuffix(label, "!")
	label = strings.TrimSuffix(label, "!")
	if f.hookFrom != nil {
		// hooks inherited from the caller are obligations of the caller: they
		// are generated although the helper itself generates none
		saved := e.noObl
		e.noObl = 0
		defer func() { e.noObl = saved }()
	}
	// vacuity guard: an assertion at a call site nothing reaches proves nothing
	// (a frame expanded several times, or several clauses at one site: one
	// reachable encounter is enough)
	cname := fmt.Sprintf("%s/cover.site.%s#%d", f.name, disp, n)
	if e.dry == 0 {
		if e.siteCovered == nil {
			e.siteCovered = map[string]int{}
		}
		k := e.siteCovered[cname]
		e.siteCovered[cname]++
		if k < 4 {
			nm := cname
			if k > 0 {
				nm = fmt.Sprintf("%s~%d", cname, k+1)
			}
			saved := e.noObl
			e.noObl = 0
			e.cover(nm, tTrue)
			e.noObl = saved
			if m := len(e.obls); m > 0 && e.obls[m-1].Kind == "cover" {
				e.obls[m-1].Group = cname
			}
		}
	}
	n0 := len(e.obls)
	g := e.evalBool(env, ca.Clause)
	e.oblige("pre", fmt.Sprintf("%s/at.%s#%d.%s", f.name, disp, n, label), g, pos)
	if len(e.obls) > n0 {
		e.obls[n0].Env = env
		e.obls[n0].ClauseText = ca.Clause.Text
		e.obls[n0].NoFinding = stone
	}
	e.coverAntecedent(fmt.Sprintf("%s/cover.at.%s#%d.%s", f.name, disp, n, label), env, ca.Clause)
	if stone {
		e.assume(g)
	}
	if e.dry == 0 {
		f.assertsSeen[fmt.Sprintf("%s#%d", disp, n)] = true
	}
}

func isNamedOrAlias(t types.Type) bool {
	switch t.(type) {
	case *types.Named, *types.Alias:
		return true
	}
	return false
}

// autoInlinable: an unexported function of the repository, with a body, no
// contract, no loops, small, not already on the frame stack, at most two levels deep.
func (e *Enc) autoInlinable(fn *ssa.Function) bool {
	if fn == nil || fn.Pkg == nil || len(fn.Blocks) == 0 || e.autoDepth >= 2 || len(e.frames) > 6 {
		return false
	}
	if !strings.HasPrefix(fn.Pkg.Pkg.Path(), repoModule) || token.IsExported(fn.Name()) {
		return false
	}
	if fn.Signature.Recv() != nil {
		// methods: only unexported ones (checked above); fine
	}
	n := 0
	for _, b := range fn.Blocks {
		n += len(b.Instrs)
		for _, s := range b.Succs {
			if s.Dominates(b) {
				return false // a loop
			}
		}
	}
	if n > 80 {
		return false
	}
	for _, f := range e.frames {
		if f.fn == fn {
			return false
		}
	}
	return true
}
