package main

import (
	"go/token"
	"go/types"

	"golang.org/x/tools/go/ssa"
)

// Higher-order callees with a built-in expansion (DESIGN 4.6, 5.1).

const maxU64 = ^uint64(0)

func init() {
	hofTable["(*github.com/PowerDNS/lmdb-go/lmdb.Env).Update"] = func(e *Enc, f *frame, fn *ssa.Function, args []Val, pos token.Pos) Val {
		return e.envTxn(f, fn, args, pos, true)
	}
	hofTable["(*github.com/PowerDNS/lmdb-go/lmdb.Env).View"] = func(e *Enc, f *frame, fn *ssa.Function, args []Val, pos token.Pos) Val {
		return e.envTxn(f, fn, args, pos, false)
	}
}

func (e *Enc) ghost(name string) T { return e.getVar(e.cur, "G|"+name, SBV64) }

// appHavoc: the application commits k >= 0 write transactions here.
func (e *Enc) appHavoc() {
	names := []string{"last", "lastApp", "unpub", "uncap", "pend"}
	old := map[string]T{}
	for _, n := range names {
		old[n] = e.ghost(n)
	}
	for _, n := range names {
		e.setVar("G|"+n, e.freshT("g_"+n, SBV64))
	}
	env := &Env{names: map[string]TV{}, oldNames: map[string]TV{}, st: e.cur, old: e.cur}
	u64 := types.Typ[types.Uint64]
	for _, n := range names {
		env.names[n+"0"] = TV{V: Sc{old[n]}, Ty: u64}
		env.names[n+"1"] = TV{V: Sc{e.ghost(n)}, Ty: u64}
	}
	ex, err := parseExprCached("appHavocRel(last0, last1, lastApp0, lastApp1, unpub0, unpub1, uncap0, uncap1, pend0, pend1)")
	if err != nil {
		panic(err)
	}
	e.assume(e.evalBool(env, Clause{Text: "appHavoc", Expr: ex, File: "hof"}))
}

// envTxn expands env.Update(f) / env.View(f) over the ghost LMDB model.
func (e *Enc) envTxn(f *frame, fn *ssa.Function, args []Val, pos token.Pos, write bool) Val {
	e.noteTrusted("model:lmdb.Env." + map[bool]string{true: "Update", false: "View"}[write])
	e.appHavoc()
	last := e.ghost("last")
	var cur T
	if write {
		cur = e.def("txnid", add(last, bv64(1)))
		// transaction ids do not overflow (2^62 write transactions; listed assumption)
		e.assume(ult(cur, bv64(1<<62)))
		e.setVar("G|dirty", bv64(0))
	} else {
		cur = last
	}
	e.setVar("G|curTxn", cur)
	e.setVar("G|pend", bv64(maxU64))
	e.setVar("G|inTxn", bv64(map[bool]uint64{true: 2, false: 1}[write]))
	uncapBefore := e.ghost("uncap")
	// the transaction handle
	sig := fn.Signature
	cbT := sig.Params().At(0).Type().Underlying().(*types.Signature)
	txn := e.freshVal(cbT.Params().At(0).Type(), "txn")
	if p, ok := txn.(Ptr); ok {
		e.assume(and(not(eq(p.Ref, bv64(0))), ult(p.Ref, e.cur.allocRef)))
	}
	var res Val
	switch cb := args[1].(type) {
	case Fn:
		if cb.F != nil {
			if e.dry == 0 {
				e.inlined[e.L.funcName(cb.F)]++
			}
			_, rs := e.runBody(cb.F, []Val{txn}, cb.Bind, false, e.L.contractOf(cb.F))
			if len(rs) > 0 {
				res = rs[0]
			}
		}
	}
	if res == nil {
		e.abstract("env-transaction-with-unknown-callback")
		e.havocAll("unknown transaction callback")
		res = e.freshVal(sig.Results().At(0).Type(), "txnerr")
	}
	errv, _ := res.(Ifc)
	ok := eq(errv.Id, bv64(0))
	e.setVar("G|inTxn", bv64(0))
	if write {
		dirty := not(eq(e.ghost("dirty"), bv64(0)))
		// an empty write transaction is not recorded: its id is reused
		e.setVar("G|last", ite(and(ok, dirty), cur, last))
		// for finding classes: id and outcome of the most recent write transaction of this process
		e.setVar("G|ownTxn", cur)
		e.setVar("G|ownTxnRecorded", ite(and(ok, dirty), bv64(1), bv64(0)))
		// an aborted transaction undoes the capture
		e.setVar("G|uncap", ite(ok, e.ghost("uncap"), uncapBefore))
	} else {
		// writers are not blocked by readers
		e.appHavoc()
	}
	// LMDB itself may fail (map full, I/O): the result may be an error even if the callback returned nil
	return res
}
