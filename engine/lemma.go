package main

import (
	"fmt"
	"go/ast"
	"go/types"
	"strings"

	"golang.org/x/tools/go/ssa"
)

// Lemmas over contracts: a straight-line sequence of symbolic variables,
// calls through contracts (never bodies), assumptions and goals. This is how
// inverse pairs (decode∘encode) and arithmetic consequences of two contracts
// are stated.

func (e *Enc) resolveType(pkg *types.Package, s string) types.Type {
	s = strings.TrimSpace(s)
	if strings.HasPrefix(s, "[]") {
		if t := e.resolveType(pkg, s[2:]); t != nil {
			return types.NewSlice(t)
		}
		return nil
	}
	if strings.HasPrefix(s, "*") {
		if t := e.resolveType(pkg, s[1:]); t != nil {
			return types.NewPointer(t)
		}
		return nil
	}
	if o := types.Universe.Lookup(s); o != nil {
		if tn, ok := o.(*types.TypeName); ok {
			return tn.Type()
		}
	}
	if i := strings.Index(s, "."); i >= 0 {
		var p *types.Package
		for _, imp := range pkg.Imports() {
			if imp.Name() == s[:i] {
				p = imp
			}
		}
		if p == nil {
			p = e.L.pkgByName(s[:i])
		}
		if p == nil {
			return nil
		}
		if tn, ok := p.Scope().Lookup(s[i+1:]).(*types.TypeName); ok {
			return tn.Type()
		}
		return nil
	}
	if tn, ok := pkg.Scope().Lookup(s).(*types.TypeName); ok {
		return tn.Type()
	}
	return nil
}

func (e *Enc) findCallee(pkg *types.Package, fun ast.Expr, env *Env) (*ssa.Function, []ast.Expr, string) {
	switch f := fun.(type) {
	case *ast.Ident:
		fn := e.L.findFunc(pkg.Path(), f.Name)
		return fn, nil, f.Name
	case *ast.SelectorExpr:
		if id, ok := f.X.(*ast.Ident); ok {
			if _, isVar := env.names[id.Name]; !isVar {
				if p := e.importByName(env, id.Name); p != nil {
					return e.L.findFunc(p.Path(), f.Sel.Name), nil, id.Name + "." + f.Sel.Name
				}
			}
		}
		// method call: recv.M(args)
		recv := e.eval(env, f.X)
		if recv.Ty != nil {
			t := recv.Ty
			key := ""
			pp := ""
			if p, ok := t.(*types.Pointer); ok {
				if n, ok := p.Elem().(*types.Named); ok {
					key = "(*" + n.Obj().Name() + ")." + f.Sel.Name
					pp = n.Obj().Pkg().Path()
				}
			} else if n, ok := t.(*types.Named); ok {
				key = "(" + n.Obj().Name() + ")." + f.Sel.Name
				pp = n.Obj().Pkg().Path()
				if e.L.findFunc(pp, key) == nil {
					key = "(*" + n.Obj().Name() + ")." + f.Sel.Name
				}
			}
			if fn := e.L.findFunc(pp, key); fn != nil {
				return fn, []ast.Expr{f.X}, key
			}
		}
	}
	return nil, nil, ""
}

func (e *Enc) runLemma(lm *Lemma) {
	e.initState()
	name := "lemma." + lm.Name
	e.topName = name
	pkg := e.L.TypesPkgs[lm.Pkg]
	if pkg == nil {
		e.errs = append(e.errs, fmt.Sprintf("lemma %s: package %s not loaded", lm.Name, lm.Pkg))
		return
	}
	fr := &frame{name: name, ncall: map[string]int{}, nsafety: map[string]int{}}
	e.frames = append(e.frames, fr)
	defer func() { e.frames = e.frames[:0] }()
	env := &Env{names: map[string]TV{}, oldNames: map[string]TV{}, st: e.cur, old: e.cur, pkg: pkg}
	nprove := 0
	defer func() {
		if r := recover(); r != nil {
			if ee, ok := r.(evalError); ok {
				e.errs = append(e.errs, fmt.Sprintf("lemma %s: %s", lm.Name, ee.msg))
				return
			}
			panic(r)
		}
	}()
	for _, st := range lm.Steps {
		env.st = e.cur
		switch st.Kind {
		case "var":
			t := e.resolveType(pkg, st.Type)
			if t == nil {
				e.errs = append(e.errs, fmt.Sprintf("lemma %s: unknown type %q", lm.Name, st.Type))
				return
			}
			v := e.freshVal(t, "in_"+st.Names[0])
			e.assumeParam(t, v, true)
			env.names[st.Names[0]] = TV{V: v, Ty: t}
			e.addInput(st.Names[0], t, v)
		case "assume":
			e.assume(e.evalBool(env, st.Clause))
		case "prove":
			label := st.Clause.Label
			if label == "" {
				label = fmt.Sprintf("g%d", nprove)
			}
			nprove++
			n := len(e.obls)
			e.oblige("lemma", name+"/"+label, e.evalBool(env, st.Clause), 0)
			if len(e.obls) > n {
				c := env.child()
				e.obls[n].Env = c
				e.obls[n].ClauseText = st.Clause.Text
			}
			e.assume(e.evalBool(env, st.Clause))
		case "call":
			call, ok := st.Clause.Expr.(*ast.CallExpr)
			if !ok {
				e.errs = append(e.errs, fmt.Sprintf("lemma %s: call needs f(args)", lm.Name))
				return
			}
			fn, recvArgs, disp := e.findCallee(pkg, call.Fun, env)
			if fn == nil {
				e.errs = append(e.errs, fmt.Sprintf("lemma %s: contract-unbound: callee %s not found", lm.Name, types.ExprString(call.Fun)))
				return
			}
			con := e.L.contractOf(fn)
			if con == nil {
				e.errs = append(e.errs, fmt.Sprintf("lemma %s: contract-unbound: %s has no contract", lm.Name, disp))
				return
			}
			var args []Val
			for i, a := range append(recvArgs, call.Args...) {
				tv := e.eval(env, a)
				var pt types.Type
				if i < len(fn.Params) {
					pt = fn.Params[i].Type()
				}
				v, _ := e.materialize(env, tv, pt)
				if isNilOp(v) && pt != nil {
					v = e.zeroVal(pt)
				}
				args = append(args, v)
			}
			rs := e.applyContract(fr, con, e.L.funcName(fn), args, fn.Signature, fn, 0)
			for i, n := range st.Names {
				if i < len(rs) && n != "_" {
					env.names[n] = TV{V: rs[i], Ty: fn.Signature.Results().At(i).Type()}
				}
			}
		}
	}
	if nprove == 0 {
		e.errs = append(e.errs, fmt.Sprintf("lemma %s proves nothing", lm.Name))
	}
}

// addInput registers a lemma variable for model extraction.
func (e *Enc) addInput(name string, t types.Type, v Val) {
	mem := e.byteMem(e.cur)
	var walk func(n string, t types.Type, v Val)
	walk = func(n string, t types.Type, v Val) {
		switch x := v.(type) {
		case Sc:
			kind := "int"
			if x.Sort == SBool {
				kind = "bool"
			}
			e.inputs = append(e.inputs, InputVar{Name: n, Kind: kind, Bits: sortWidth(x.Sort), Expr: x.S})
		case Sl:
			if isByte(x.Elem) {
				e.inputs = append(e.inputs, InputVar{Name: n, Kind: "bytes", Arr: x.Arr.S, Off: x.Off.S, Len: x.Len.S, Cap: x.Cap.S, MemVar: mem.S})
			}
		case St:
			if u, ok := t.Underlying().(*types.Struct); ok {
				for i, fv := range x.F {
					walk(n+"."+u.Field(i).Name(), u.Field(i).Type(), fv)
				}
			}
		}
	}
	walk(name, t, v)
}
