package main

import (
	"go/token"

	"golang.org/x/tools/go/ssa"
)

// Maps are not modelled yet: lookups are fresh, updates are dropped (the map
// contents are outside the state of any claimed obligation; each use is
// listed as an abstraction).
func (e *Enc) lookup(f *frame, x *ssa.Lookup) {
	if s, ok := e.val(x.X).(Str); ok && !x.CommaOk {
		idx := e.idx64(e.val(x.Index), x.Index.Type())
		e.safety(f, "index", ult(idx, s.Len), x.Pos())
		f.vals[x] = Sc{e.def(x.Name(), sel(sel(e.byteMem(e.cur), s.Arr), add(s.Off, idx)))}
		return
	}
	if h := e.mapHook; h != nil {
		if v, ok := h.lookup(e, f, x); ok {
			f.vals[x] = v
			return
		}
	}
	if v, ok := e.mapLookup(f, x); ok {
		f.vals[x] = v
		return
	}
	e.abstract("map-lookup")
	f.vals[x] = e.freshVal(x.Type(), x.Name())
}

func (e *Enc) mapUpdate(f *frame, x *ssa.MapUpdate) {
	if h := e.mapHook; h != nil {
		if h.update(e, f, x) {
			return
		}
	}
	if e.mapStore(f, x) {
		return
	}
	e.abstract("map-update")
}

func (e *Enc) mapDelete(f *frame, c *ssa.CallCommon, args []Val) {
	if e.mapRemove(c, args) {
		return
	}
	e.abstract("map-delete")
}

type mapHooks struct {
	lookup func(e *Enc, f *frame, x *ssa.Lookup) (Val, bool)
	update func(e *Enc, f *frame, x *ssa.MapUpdate) bool
}

func (e *Enc) fnChoice(c T, a, b Fn) Val {
	// A function-typed variable holding one of two known functions. Keep a
	// symbolic choice: calls through it are split by the engine.
	return FnSel{C: c, A: a, B: b}
}

// FnSel is a function value that is A when C holds, else B.
type FnSel struct {
	C    T
	A, B Val
}

func (FnSel) isVal() {}

func (e *Enc) higherOrder(f *frame, fn *ssa.Function, name string, args []Val, pos token.Pos) (Val, bool) {
	if h, ok := hofTable[name]; ok {
		return h(e, f, fn, args, pos), true
	}
	return nil, false
}

var hofTable = map[string]func(e *Enc, f *frame, fn *ssa.Function, args []Val, pos token.Pos) Val{}
