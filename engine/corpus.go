package main

import (
	"encoding/json"
	"fmt"
	"os"
	"os/exec"
	"path/filepath"
	"sort"
	"strings"
)

// Thorough tier, second half: the must-fail corpus of this property. Every
// seeded change under seeded/ that is recorded as detected by this property's
// check is applied to a scratch worktree of /repo's HEAD (under the system
// temp directory, removed afterwards) and the check must report a violation
// there. A change that no longer applies is skipped (the code moved on). A
// change that applies and is not reported means the machinery lost detection
// power: that is an error of the check (exit 2), not a violation of the
// property.
type corpusResult struct {
	Checked  int      `json:"checked"`
	Detected int      `json:"detected"`
	Skipped  []string `json:"skipped,omitempty"`
	Missed   []string `json:"missed,omitempty"`
}

func runCorpus(prop string) (*corpusResult, error) {
	res := &corpusResult{}
	dirs, _ := filepath.Glob(filepath.Join(verifDir, "seeded", "*", "meta.json"))
	sort.Strings(dirs)
	type seed struct{ id, patch string }
	var seeds []seed
	for _, mf := range dirs {
		b, err := os.ReadFile(mf)
		if err != nil {
			continue
		}
		var m struct {
			Result string   `json:"verif_result"`
			Props  []string `json:"verif_props"`
		}
		if json.Unmarshal(b, &m) != nil || !strings.HasPrefix(m.Result, "detected") {
			continue
		}
		// only the first listed property is guaranteed to detect the change
		if len(m.Props) == 0 || m.Props[0] != prop {
			continue
		}
		seeds = append(seeds, seed{filepath.Base(filepath.Dir(mf)), filepath.Join(filepath.Dir(mf), "patch.diff")})
	}
	if len(seeds) == 0 {
		return res, nil
	}
	wt, err := os.MkdirTemp("", "lsvc-corpus-")
	if err != nil {
		return nil, err
	}
	os.Remove(wt)
	if out, err := exec.Command("git", "-C", "/repo", "worktree", "add", "-q", "--detach", wt, "HEAD").CombinedOutput(); err != nil {
		return nil, fmt.Errorf("worktree: %v: %s", err, out)
	}
	defer func() {
		exec.Command("git", "-C", "/repo", "worktree", "remove", "--force", wt).Run()
		os.RemoveAll(wt)
	}()
	// the working tree of /repo may differ from HEAD (uncommitted edits): the
	// corpus runs on the tree the quick check just passed on
	if diff, err := exec.Command("git", "-C", "/repo", "diff", "HEAD").Output(); err == nil && len(diff) > 0 {
		ap := exec.Command("git", "-C", wt, "apply", "-")
		ap.Stdin = strings.NewReader(string(diff))
		if out, err := ap.CombinedOutput(); err != nil {
			return nil, fmt.Errorf("cannot mirror /repo's working tree: %s", out)
		}
		exec.Command("git", "-C", wt, "add", "-A").Run()
		exec.Command("git", "-C", wt, "-c", "user.email=lsvc@localhost", "-c", "user.name=lsvc", "commit", "-qm", "working tree").Run()
	}
	self, _ := os.Executable()
	for _, s := range seeds {
		exec.Command("git", "-C", wt, "checkout", "-q", "--", ".").Run()
		exec.Command("git", "-C", wt, "clean", "-fdq").Run()
		if out, err := exec.Command("git", "-C", wt, "apply", s.patch).CombinedOutput(); err != nil {
			res.Skipped = append(res.Skipped, s.id+": patch does not apply ("+firstLines(string(out), 1)+")")
			continue
		}
		cmd := exec.Command(self, "check", "--property", prop, "--repo", wt, "--no-replay", "--tier", "quick")
		cmd.Env = append(os.Environ(), "LSVC_CACHE=1")
		out, _ := cmd.CombinedOutput()
		res.Checked++
		if strings.Contains(string(out), "VIOLATION property="+prop) {
			res.Detected++
		} else {
			res.Missed = append(res.Missed, s.id)
		}
	}
	return res, nil
}
