package main

import (
	"os"
	"fmt"
	"go/ast"
	"go/token"
	"go/types"
	"sort"
	"strings"

	"golang.org/x/tools/go/ssa"
)

const firstDynArr = 4096 // array ids below are reserved for string constants

// FuncResult is what verifying one function under contract produced.
type FuncResult struct {
	Name       string
	Enc        *Enc
	Obls       []*Obligation
	Errs       []string
	Blocks     int
	Instrs     int
}

func (e *Enc) initState() {
	e.cur = &State{cells: map[*ssa.Alloc]Val{}, vars: map[string]T{}}
	ar := T{e.prefix + "allocRef0", SBV64}
	aa := T{e.prefix + "allocArr0", SBV64}
	e.decls = append(e.decls, fmt.Sprintf("(declare-const %s %s)", ar.S, SBV64), fmt.Sprintf("(declare-const %s %s)", aa.S, SBV64),
		fmt.Sprintf("(assert (and (bvule #x0000000000000001 %s) (bvule %s #x0000100000000000)))", ar.S, ar.S),
		fmt.Sprintf("(assert (and (bvule %s %s) (bvule %s #x0000100000000000)))", bv64(firstDynArr).S, aa.S, aa.S))
	e.cur.allocRef, e.cur.allocArr = ar, aa
	e.reach = tTrue
}

// paramVal creates the symbolic entry value of a parameter.
func (e *Enc) paramVal(p *ssa.Parameter, isRecv bool) Val {
	v := e.freshVal(p.Type(), "in_"+p.Name())
	e.assumeParam(p.Type(), v, isRecv)
	return v
}

func (e *Enc) assumeParam(t types.Type, v Val, nonNil bool) {
	switch x := v.(type) {
	case Sl:
		e.assume(and(ult(x.Arr, e.cur.allocArr), or(eq(x.Arr, bv64(0)), ule(bv64(firstDynArr), x.Arr))))
	case Str:
		e.assume(ult(x.Arr, e.cur.allocArr))
	case Ptr:
		if x.K == pHeap {
			e.assume(ult(x.Ref, e.cur.allocRef))
			if nonNil {
				e.assume(not(eq(x.Ref, bv64(0))))
			}
		}
	case St:
		switch u := t.Underlying().(type) {
		case *types.Struct:
			for i, fv := range x.F {
				e.assumeParam(u.Field(i).Type(), fv, false)
			}
		}
	}
}

func (e *Enc) verifyFunction(fn *ssa.Function, con *Contract) {
	e.initState()
	name := e.L.funcName(fn)
	var params []Val
	for i, p := range fn.Params {
		params = append(params, e.paramVal(p, i == 0 && fn.Signature.Recv() != nil))
	}
	// free variables of a closure verified on its own: fresh heap cells
	var bind []Val
	for _, fv := range fn.FreeVars {
		v := e.freshVal(fv.Type(), "fv_"+fv.Name())
		e.assumeParam(fv.Type(), v, true)
		bind = append(bind, v)
	}
	entry := e.cur.clone()
	env := e.topEnv(fn, con, params, nil, entry, entry)
	e.evalLets(env, con)
	for _, r := range con.Requires {
		e.assume(e.evalBool(env, r))
	}
	for _, r := range con.Assumes {
		e.assume(e.evalBool(env, r))
		e.trusted["assumes:"+name+": "+r.Text]++
	}
	if con.Goroutine {
		e.trusted["assumes:"+name+": entered with no mutex held (goroutine body / called from lock-free code)"]++
	}
	e.topName = name
	e.topFn = fn
	e.inputs = e.collectInputs(fn, params, entry)
	// vacuity guard: the precondition is satisfiable
	e.frames = append(e.frames, &frame{fn: fn, name: name, ncall: map[string]int{}, nsafety: map[string]int{}})
	e.cover(name+"/cover.pre", tTrue)
	e.frames = e.frames[:0]

	reach, rets := e.runBody(fn, params, bind, true, con)
	e.frames = append(e.frames, &frame{fn: fn, name: name, ncall: map[string]int{}, nsafety: map[string]int{}})
	defer func() { e.frames = e.frames[:0] }()
	if reach.S == "false" {
		e.errs = append(e.errs, name+": no normal return reachable")
		return
	}
	e.cover(name+"/cover.return", tTrue)
	env = e.topEnv(fn, con, params, rets, e.cur, entry)
	// postconditions may also mention the function's top-level local variables
	// (their values at the return) and, for closures, the captured variables
	if s := fn.Syntax(); s != nil && e.lastFrame != nil {
		ce := e.cellEnv(e.lastFrame, s.End()-1, e.cur)
		env.resolve = ce.resolve
		env.resolveSt = ce.resolveSt
	}
	e.evalLets(env, con)
	var pos token.Pos
	if s := fn.Syntax(); s != nil {
		pos = s.Pos()
	}
	for _, c := range con.Ensures {
		n := len(e.obls)
		label := strings.TrimSuffix(c.Label, "!")
		g := e.evalBool(env, c)
		e.oblige("post", name+"/post."+label, g, pos)
		e.coverAntecedent(name+"/cover.post."+label, env, c)
		if len(e.obls) > n {
			e.obls[n].Env = env
			e.obls[n].ClauseText = c.Text
			e.obls[n].ClauseExpr = c.Expr
			e.obls[n].NoFinding = strings.HasSuffix(c.Label, "!")
		}
		if strings.HasSuffix(c.Label, "!") {
			// "label!": proved here, then available as a lemma to the clauses
			// that follow (never combined with a known finding)
			e.assume(g)
		}
	}
	for _, c := range con.Exits {
		n := len(e.obls)
		g := e.evalBool(env, c)
		e.oblige("exit", name+"/exit."+c.Label, g, pos)
		if len(e.obls) > n {
			e.obls[n].Env = env
			e.obls[n].ClauseText = c.Text
			e.obls[n].ClauseExpr = c.Expr
		}
	}
	if con.LockCheck {
		e.lockBalance(name, entry, pos)
	}
	if !con.ModAll && !con.ModHeap {
		e.frameObligations(name, con, env, entry, pos)
	}
}

func (e *Enc) topEnv(fn *ssa.Function, con *Contract, params, rets []Val, st, old *State) *Env {
	env := &Env{names: map[string]TV{}, oldNames: map[string]TV{}, st: st, old: old}
	pkg, _ := e.L.typesInfoFor(fn)
	env.pkg = pkg
	for i, p := range fn.Params {
		tv := TV{V: params[i], Ty: p.Type()}
		env.names[p.Name()] = tv
		env.oldNames[p.Name()] = tv
	}
	if rets != nil {
		names := e.resultNames(con, fn.Signature, fn)
		for i, n := range names {
			if i < len(rets) {
				env.names[n] = TV{V: rets[i], Ty: fn.Signature.Results().At(i).Type()}
			}
		}
	}
	return env
}

// frameObligations: everything outside the modifies clause is unchanged.
func (e *Enc) frameObligations(name string, con *Contract, env *Env, entry *State, pos token.Pos) {
	name0 := name
	// collect allowed (key -> refs) from the modifies clause
	allowedRef := map[string][]T{} // heap key -> refs
	var allowedArr []T
	allowedGlobal := map[string]bool{}
	for _, m := range con.Modifies {
		func() {
			defer func() {
				if r := recover(); r != nil {
					if ee, ok := r.(evalError); ok {
						e.errs = append(e.errs, fmt.Sprintf("%s: modifies %s: %s", name, m, ee.msg))
						return
					}
					panic(r)
				}
			}()
			oenv := env.child()
			oenv.st = entry
			if strings.HasPrefix(m, "bytes(") {
				ex, err := parseExprCached(m[6 : len(m)-1])
				if err != nil {
					e.errs = append(e.errs, err.Error())
					return
				}
				allowedArr = append(allowedArr, e.asSl(oenv, e.eval(oenv, ex)).Arr)
				return
			}
			if strings.HasPrefix(m, "ghost_") {
				allowedRef["G|"+strings.TrimPrefix(m, "ghost_")] = nil
				return
			}
			if strings.HasPrefix(m, "global:") {
				allowedGlobal[strings.TrimPrefix(m, "global:")] = true
				return
			}
			target, all := m, false
			if strings.HasPrefix(m, "*") {
				target, all = m[1:], true
			}
			base, field := target, ""
			if !all {
				i := strings.LastIndex(target, ".")
				base, field = target[:i], target[i+1:]
			}
			ex, err := parseExprCached(base)
			if err != nil {
				e.errs = append(e.errs, err.Error())
				return
			}
			b := e.eval(oenv, ex)
			p, ok := b.V.(Ptr)
			if !ok || p.K != pHeap {
				e.evalFail(oenv, "not a heap pointer")
			}
			prefix, _ := pathLeafPrefix(p.Obj, p.Path)
			ft := p.Elem
			if !all {
				st := p.Elem.Underlying().(*types.Struct)
				for i := 0; i < st.NumFields(); i++ {
					if st.Field(i).Name() == field {
						ft = st.Field(i).Type()
						prefix = joinLeaf(prefix, field)
					}
				}
			}
			for _, l := range leavesOf(ft) {
				k := heapKey(p.Obj, joinLeaf(prefix, l.Name))
				allowedRef[k] = append(allowedRef[k], p.Ref)
				if os.Getenv("LSVC_DEBUG") != "" {
					fmt.Fprintln(os.Stderr, "allowed", k, p.Ref.S)
				}
			}
		}()
	}
	var keys []string
	for k := range e.cur.vars {
		keys = append(keys, k)
	}
	sort.Strings(keys)
	if _, hv := e.cur.vars["*havoc*"]; hv {
		e.oblige("frame", name+"/frame.unknown-callee", tFalse, pos)
		return
	}
	for _, k := range keys {
		fin := e.cur.vars[k]
		if fin.Sort == "" {
			continue
		}
		ini := e.getVar(entry, k, fin.Sort)
		if ini.S == fin.S {
			continue
		}
		switch {
		case strings.HasPrefix(k, "H|"):
			cs := []T{ult(T{"r!f", SBV64}, entry.allocRef)}
			for _, r := range allowedRef[k] {
				cs = append(cs, not(eq(T{"r!f", SBV64}, r)))
			}
			goal := T{fmt.Sprintf("(forall ((r!f (_ BitVec 64))) (=> %s (= (select %s r!f) (select %s r!f))))", and(cs...).S, fin.S, ini.S), SBool}
			e.oblige("frame", name+"/frame."+strings.TrimPrefix(k, "H|"), goal, pos)
		case strings.HasPrefix(k, "M|"):
			cs := []T{ult(T{"a!f", SBV64}, entry.allocArr)}
			if k == "M|byte" {
				for _, a := range allowedArr {
					cs = append(cs, not(eq(T{"a!f", SBV64}, a)))
				}
			}
			goal := T{fmt.Sprintf("(forall ((a!f (_ BitVec 64))) (=> %s (= (select %s a!f) (select %s a!f))))", and(cs...).S, fin.S, ini.S), SBool}
			e.oblige("frame", name+"/frame."+strings.ReplaceAll(strings.TrimPrefix(k, "M|"), "|", "."), goal, pos)
		case strings.HasPrefix(k, "V|"):
			name := k[strings.LastIndex(strings.SplitN(k, "|", 3)[1], ".")+3:]
			if i := strings.Index(name, "|"); i >= 0 {
				name = name[:i]
			}
			if allowedGlobal[name] {
				continue
			}
			e.oblige("frame", name0+"/frame.global."+name, eq(fin, ini), pos)
		case strings.HasPrefix(k, "G|"):
			if _, ok := allowedRef[k]; ok || strings.HasPrefix(k, "G|loc_") || (strings.HasPrefix(k, "G|") && e.L.Contracts.ScratchGhost[k[2:]]) {
				continue
			}
			e.oblige("frame", name+"/frame.ghost."+strings.TrimPrefix(k, "G|"), eq(fin, ini), pos)
		}
	}
}

// collectInputs lists the input components whose model values are needed to
// replay a counterexample.
func (e *Enc) collectInputs(fn *ssa.Function, params []Val, entry *State) []InputVar {
	var out []InputVar
	mem := e.byteMem(entry)
	var walk func(name string, t types.Type, v Val, depth int)
	walk = func(name string, t types.Type, v Val, depth int) {
		switch x := v.(type) {
		case Sc:
			kind := "int"
			if x.Sort == SBool {
				kind = "bool"
			}
			out = append(out, InputVar{Name: name, Kind: kind, Bits: sortWidth(x.Sort), Expr: x.S})
		case Sl:
			if isByte(x.Elem) {
				out = append(out, InputVar{Name: name, Kind: "bytes", Arr: x.Arr.S, Off: x.Off.S, Len: x.Len.S, Cap: x.Cap.S, MemVar: mem.S})
			}
		case Str:
			out = append(out, InputVar{Name: name, Kind: "string", Arr: x.Arr.S, Off: x.Off.S, Len: x.Len.S, Cap: x.Len.S, MemVar: mem.S})
		case St:
			if u, ok := t.Underlying().(*types.Struct); ok {
				for i, fv := range x.F {
					walk(name+"."+u.Field(i).Name(), u.Field(i).Type(), fv, depth)
				}
			}
		case Ifc:
			out = append(out, InputVar{Name: name, Kind: "iface", Bits: 64, Expr: x.Id.S})
		case Ptr:
			if x.K == pHeap && depth < 1 {
				if _, ok := x.Elem.Underlying().(*types.Struct); ok {
					saved := e.cur
					e.cur = entry
					e.dry++
					fv := e.load(x, x.Elem)
					e.dry--
					e.cur = saved
					walk(name, x.Elem, fv, depth+1)
				}
			}
		}
	}
	for i, p := range fn.Params {
		walk(p.Name(), p.Type(), params[i], 0)
	}
	return out
}

// ------------------------------------------------------------------ query text

const preludeSeq = `(declare-sort BSeq 0)
(declare-fun seqid ((Array (_ BitVec 64) (_ BitVec 8)) (_ BitVec 64) (_ BitVec 64)) BSeq)
(declare-fun seqlen (BSeq) (_ BitVec 64))
(declare-const emptyseq BSeq)
`
const preludeLex = `(declare-fun lexle (BSeq BSeq) Bool)
(assert (forall ((a BSeq)) (lexle a a)))
(assert (forall ((a BSeq) (b BSeq)) (=> (and (lexle a b) (lexle b a)) (= a b))))
(assert (forall ((a BSeq) (b BSeq) (c BSeq)) (=> (and (lexle a b) (lexle b c)) (lexle a c))))
(assert (forall ((a BSeq) (b BSeq)) (or (lexle a b) (lexle b a))))
`

const maxModelBytes = 40

func (e *Enc) query(o *Obligation, withModel bool) string {
	var b strings.Builder
	if withModel {
		b.WriteString("(set-option :produce-models true)\n")
	}
	if e.usesSeq {
		b.WriteString(preludeSeq)
	}
	if e.opaqueReads {
		b.WriteString(preludeOpaque)
		var names []string
		for n := range e.specSorts {
			names = append(names, n)
		}
		sort.Strings(names)
		for _, n := range names {
			b.WriteString(fmt.Sprintf("(declare-fun u_%s ((Array (_ BitVec 64) (_ BitVec 8)) (_ BitVec 64) (_ BitVec 64)) %s)\n", n, e.specSorts[n].sort))
		}
	}
	if e.usesLex && !e.seqAbstract {
		b.WriteString(preludeLex)
	} else if e.usesLex {
		b.WriteString("(declare-fun lexle (BSeq BSeq) Bool)\n")
	}
	{
		var ns []string
		for n := range e.ufDecls {
			ns = append(ns, n)
		}
		sort.Strings(ns)
		for _, n := range ns {
			b.WriteString(e.ufDecls[n] + "\n")
		}
	}
	for _, l := range e.decls {
		b.WriteString(l)
		b.WriteByte('\n')
	}
	for _, l := range e.lines[:o.Upto] {
		b.WriteString(l)
		b.WriteByte('\n')
	}
	if e.usesSeq {
		// every sequence term: equal ids have equal lengths; all empty sequences are one id
		seen := map[string]bool{}
		var lexIDs []string
		nsid := 0
		for _, st := range e.seqTerms {
			if st.at > o.Upto {
				continue
			}
			id := seqID(st.t.arr, st.t.s)
			if seen[id] {
				continue
			}
			seen[id] = true
			n := fmt.Sprintf("sid!%d", nsid)
			nsid++
			if st.lex {
				lexIDs = append(lexIDs, n)
			}
			b.WriteString(fmt.Sprintf("(declare-const %s BSeq)\n(assert (= %s %s))\n(assert (= (seqlen %s) %s))\n(assert (= (= %s #x0000000000000000) (= %s emptyseq)))\n",
				n, n, id, n, st.t.s.Len.S, st.t.s.Len.S, n))
		}
		for _, os := range e.opaqueSeqs {
			if os.at <= o.Upto && !seen[os.term] {
				seen[os.term] = true
				b.WriteString(fmt.Sprintf("(assert (= (= (seqlen %s) #x0000000000000000) (= %s emptyseq)))\n", os.term, os.term))
			}
		}
		b.WriteString("(assert (= (seqlen emptyseq) #x0000000000000000))\n")
		if e.seqAbstract && e.usesLex {
			// relational mode: ground instances of the total order on the compared sequences
			ids := lexIDs
			for _, x := range ids {
				b.WriteString(fmt.Sprintf("(assert (lexle %s %s))\n(assert (lexle emptyseq %s))\n", x, x, x))
			}
			for i, x := range ids {
				for j, y := range ids {
					if i < j {
						b.WriteString(fmt.Sprintf("(assert (or (lexle %s %s) (lexle %s %s)))\n(assert (=> (and (lexle %s %s) (lexle %s %s)) (= %s %s)))\n", x, y, y, x, x, y, y, x, x, y))
					}
					if i == j {
						continue
					}
					for k, z := range ids {
						if k == i || k == j {
							continue
						}
						b.WriteString(fmt.Sprintf("(assert (=> (and (lexle %s %s) (lexle %s %s)) (lexle %s %s)))\n", x, y, y, z, x, z))
					}
				}
			}
		}
	}
	if e.usesSeq && !e.seqAbstract {
		// extensionality of seqid on the pairs of sequences compared so far
		seen := map[string]bool{}
		emptyDone := map[string]bool{}
		for _, p := range e.seqPairs {
			if p.at > o.Upto {
				continue
			}
			ia, ic := seqID(p.a.arr, p.a.s), seqID(p.b.arr, p.b.s)
			if ia != ic && !seen[ia+"|"+ic] {
				seen[ia+"|"+ic] = true
				a, c := p.a, p.b
				b.WriteString(fmt.Sprintf("(assert (= (= %s %s) (and (= %s %s) (forall ((k!x (_ BitVec 64))) (! (=> (bvult k!x %s) (= (select %s (bvadd %s k!x)) (select %s (bvadd %s k!x)))) :pattern ((select %s (bvadd %s k!x))) :pattern ((select %s (bvadd %s k!x))))))))\n",
					ia, ic, a.s.Len.S, c.s.Len.S, a.s.Len.S, a.arr.S, a.s.Off.S, c.arr.S, c.s.Off.S, a.arr.S, a.s.Off.S, c.arr.S, c.s.Off.S))
			}
			// the empty sequence is least
			for _, t := range []seqTerm{p.a, p.b} {
				if !e.usesLex {
					break
				}
				id := seqID(t.arr, t.s)
				if !emptyDone[id] {
					emptyDone[id] = true
					b.WriteString(fmt.Sprintf("(assert (=> (= %s #x0000000000000000) (forall ((s!x BSeq)) (lexle %s s!x))))\n", t.s.Len.S, id))
				}
			}
		}
	}
	for _, l := range o.Extra {
		b.WriteString(l)
		b.WriteByte('\n')
	}
	b.WriteString("(assert " + o.Reach.S + ")\n")
	b.WriteString("(assert " + not(o.Goal).S + ")\n")
	b.WriteString("(check-sat)\n")
	if withModel {
		var terms []string
		for _, in := range e.inputs {
			switch in.Kind {
			case "int", "bool", "iface":
				terms = append(terms, in.Expr)
			case "bytes", "string":
				terms = append(terms, in.Arr, in.Off, in.Len, in.Cap)
				for i := 0; i < maxModelBytes; i++ {
					terms = append(terms, fmt.Sprintf("(select (select %s %s) (bvadd %s %s))", in.MemVar, in.Arr, in.Off, bv64(uint64(i)).S))
				}
			}
		}
		for _, t := range terms {
			b.WriteString("(get-value (" + t + "))\n")
		}
	}
	return b.String()
}

// loopPosOf is used for messages only.
func loopPosOf(s ast.Stmt) token.Pos { return s.Pos() }
