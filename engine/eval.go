package main

import (
	"fmt"
	"go/ast"
	"go/constant"
	"go/token"
	"go/types"
	"strings"
)

// TV is a contract-level value with its Go type (nil type + Const for untyped constants).
type TV struct {
	V     Val
	Ty    types.Type
	Const constant.Value
}

type Env struct {
	names map[string]TV
	st    *State // state in which heap/memory is read
	old   *State // entry state for old(...)
	pkg   *types.Package
	where string
	oldNames map[string]TV // names as of entry (parameters)
	head     *State        // state at the head of the current iteration, for atHead(...) in loop step clauses
	resolve  func(name string) (TV, bool)
	resolveSt func(st *State, name string) (TV, bool) // the same, read in a given state (old(x))
}

func (env *Env) child() *Env {
	n := *env
	n.names = make(map[string]TV, len(env.names)+2)
	for k, v := range env.names {
		n.names[k] = v
	}
	return &n
}

type evalError struct{ msg string }

func (e *Enc) evalFail(env *Env, format string, args ...interface{}) {
	panic(evalError{fmt.Sprintf("%s: ", env.where) + fmt.Sprintf(format, args...)})
}

// evalBool evaluates a clause to a Bool term; errors are collected and the
// clause evaluates to false (so that a broken contract never passes silently).
func (e *Enc) evalBool(env *Env, c Clause) (res T) {
	defer func() {
		if r := recover(); r != nil {
			if ee, ok := r.(evalError); ok {
				e.errs = append(e.errs, fmt.Sprintf("%s:%d: %s [%s]", c.File, c.Line, ee.msg, c.Text))
				res = tFalse
				return
			}
			panic(r)
		}
	}()
	env.where = fmt.Sprintf("%s:%d", shortFile(c.File), c.Line)
	tv := e.eval(env, c.Expr)
	return e.asBool(env, tv)
}

func shortFile(f string) string {
	if i := strings.LastIndex(f, "/"); i >= 0 {
		return f[i+1:]
	}
	return f
}

func (e *Enc) asBool(env *Env, tv TV) T {
	if tv.Const != nil && tv.Const.Kind() == constant.Bool {
		if constant.BoolVal(tv.Const) {
			return tTrue
		}
		return tFalse
	}
	if s, ok := tv.V.(Sc); ok && s.Sort == SBool {
		return s.T
	}
	e.evalFail(env, "expected a boolean, got %T", tv.V)
	return tFalse
}

func (e *Enc) withState(st *State, f func()) {
	saved := e.cur
	e.cur = st
	e.dry++ // reads during evaluation must not create obligations or record writes
	wc, wv := e.writesC, e.writesV
	e.writesC, e.writesV = nil, nil
	defer func() { e.cur = saved; e.dry--; e.writesC, e.writesV = wc, wv }()
	f()
}

func (e *Enc) constTo(env *Env, c constant.Value, t types.Type) Val {
	if t == nil {
		t = types.Typ[types.Int]
	}
	b, ok := t.Underlying().(*types.Basic)
	if !ok {
		e.evalFail(env, "constant used with non-basic type %s", t)
	}
	switch c.Kind() {
	case constant.Bool:
		if constant.BoolVal(c) {
			return Sc{tTrue}
		}
		return Sc{tFalse}
	case constant.Int:
		w := sortWidth(basicSort(b))
		if w == 0 {
			e.evalFail(env, "integer constant used as %s", t)
		}
		if i, ok := constant.Int64Val(c); ok {
			return Sc{bv(uint64(i), w)}
		}
		u, _ := constant.Uint64Val(c)
		return Sc{bv(u, w)}
	case constant.String:
		return e.strConst(constant.StringVal(c))
	}
	e.evalFail(env, "unsupported constant kind")
	return nil
}

func (e *Enc) materialize(env *Env, tv TV, hint types.Type) (Val, types.Type) {
	if tv.Const != nil {
		t := tv.Ty
		if t == nil {
			t = hint
		}
		if t == nil {
			if tv.Const.Kind() == constant.Bool {
				t = types.Typ[types.Bool]
			} else if tv.Const.Kind() == constant.String {
				t = types.Typ[types.String]
			} else {
				t = types.Typ[types.Int]
			}
		}
		return e.constTo(env, tv.Const, t), t
	}
	return tv.V, tv.Ty
}

func (e *Enc) eval(env *Env, x ast.Expr) TV {
	switch n := x.(type) {
	case *ast.ParenExpr:
		return e.eval(env, n.X)
	case *ast.BasicLit:
		switch n.Kind {
		case token.INT, token.CHAR:
			return TV{Const: constant.MakeFromLiteral(n.Value, n.Kind, 0)}
		case token.STRING:
			return TV{Const: constant.MakeFromLiteral(n.Value, n.Kind, 0)}
		}
		e.evalFail(env, "unsupported literal %s", n.Value)
	case *ast.Ident:
		return e.evalIdent(env, n.Name)
	case *ast.SelectorExpr:
		return e.evalSelector(env, n)
	case *ast.UnaryExpr:
		v := e.eval(env, n.X)
		switch n.Op {
		case token.NOT:
			return TV{V: Sc{not(e.asBool(env, v))}, Ty: types.Typ[types.Bool]}
		case token.SUB:
			if v.Const != nil {
				return TV{Const: constant.UnaryOp(token.SUB, v.Const, 0), Ty: v.Ty}
			}
			s := v.V.(Sc)
			return TV{V: Sc{app(s.Sort, "bvneg", s.T)}, Ty: v.Ty}
		case token.XOR:
			if v.Const != nil {
				mv, mt := e.materialize(env, v, nil)
				s := mv.(Sc)
				return TV{V: Sc{app(s.Sort, "bvnot", s.T)}, Ty: mt}
			}
			s := v.V.(Sc)
			return TV{V: Sc{app(s.Sort, "bvnot", s.T)}, Ty: v.Ty}
		}
		e.evalFail(env, "unsupported unary operator %s", n.Op)
	case *ast.BinaryExpr:
		return e.evalBinary(env, n)
	case *ast.CallExpr:
		return e.evalCall(env, n)
	case *ast.IndexExpr:
		b := e.eval(env, n.X)
		if b.Ty != nil {
			if mt, isMap := b.Ty.Underlying().(*types.Map); isMap {
				// m[k] in a contract: the map's lookup function in this state
				m, isOp := b.V.(Op)
				if !isOp || !modelledElem(mt) {
					e.evalFail(env, "index of an unmodelled map")
				}
				kv, _ := e.materialize(env, e.eval(env, n.Index), mt.Key())
				var out TV
				e.withState(env.st, func() {
					v, _ := e.mapRead(env.st, mt, m.Id, kv)
					out = TV{V: v, Ty: mt.Elem()}
				})
				return out
			}
		}
		iv, it := e.materialize(env, e.eval(env, n.Index), types.Typ[types.Int])
		idx := e.idx64(iv, it)
		var out TV
		e.withState(env.st, func() {
			switch s := b.V.(type) {
			case Sl:
				if isByte(s.Elem) {
					if e.opaqueReads {
						out = TV{V: Sc{e.opaqueRead(env.st, s, idx, 1, true)}, Ty: types.Typ[types.Uint8]}
					} else {
						out = TV{V: Sc{e.byteAt(env.st, s, idx)}, Ty: types.Typ[types.Uint8]}
					}
				} else {
					out = TV{V: e.load(Ptr{K: pElem, Sl: s, Idx: idx, Elem: s.Elem}, s.Elem), Ty: s.Elem}
				}
			case Str:
				out = TV{V: Sc{sel(sel(e.byteMem(env.st), s.Arr), add(s.Off, idx))}, Ty: types.Typ[types.Uint8]}
			default:
				e.evalFail(env, "index of %T", b.V)
			}
		})
		return out
	case *ast.SliceExpr:
		b := e.eval(env, n.X)
		get := func(x ast.Expr, def T) T {
			if x == nil {
				return def
			}
			v, t := e.materialize(env, e.eval(env, x), types.Typ[types.Int])
			return e.idx64(v, t)
		}
		switch s := b.V.(type) {
		case Sl:
			lo := get(n.Low, bv64(0))
			hi := get(n.High, s.Len)
			mx := get(n.Max, s.Cap)
			return TV{V: Sl{Arr: s.Arr, Off: add(s.Off, lo), Len: sub(hi, lo), Cap: sub(mx, lo), Elem: s.Elem}, Ty: b.Ty}
		case Str:
			lo := get(n.Low, bv64(0))
			hi := get(n.High, s.Len)
			return TV{V: Str{Arr: s.Arr, Off: add(s.Off, lo), Len: sub(hi, lo)}, Ty: b.Ty}
		}
		e.evalFail(env, "slice of %T", b.V)
	case *ast.StarExpr:
		b := e.eval(env, n.X)
		p, ok := b.V.(Ptr)
		if !ok {
			e.evalFail(env, "dereference of %T", b.V)
		}
		var out TV
		e.withState(env.st, func() { out = TV{V: e.load(p, p.Elem), Ty: p.Elem} })
		return out
	}
	e.evalFail(env, "unsupported expression %T", x)
	return TV{}
}

func (e *Enc) evalIdent(env *Env, name string) TV {
	if tv, ok := env.names[name]; ok {
		return tv
	}
	if env.resolveSt != nil && env.st != nil {
		// locals and captured variables, read in the state this environment
		// evaluates in (old(x) switches the state)
		if tv, ok := env.resolveSt(env.st, name); ok {
			return tv
		}
	} else if env.resolve != nil {
		if tv, ok := env.resolve(name); ok {
			return tv
		}
	}
	switch name {
	case "true":
		return TV{Const: constant.MakeBool(true)}
	case "false":
		return TV{Const: constant.MakeBool(false)}
	case "nil":
		return TV{V: Op{bv64(0), nil}}
	}
	if strings.HasPrefix(name, "ghost_") {
		return TV{V: Sc{e.getVar(env.st, "G|"+strings.TrimPrefix(name, "ghost_"), SBV64)}, Ty: types.Typ[types.Uint64]}
	}
	if env.pkg != nil {
		if obj := env.pkg.Scope().Lookup(name); obj != nil {
			return e.objValue(env, obj)
		}
	}
	e.evalFail(env, "unknown name %q", name)
	return TV{}
}

func (e *Enc) objValue(env *Env, obj types.Object) TV {
	switch o := obj.(type) {
	case *types.Const:
		return TV{Const: o.Val(), Ty: o.Type()}
	case *types.Var:
		// package-level variable
		if g := e.L.globalByObj(o); g != nil {
			var out TV
			e.withState(env.st, func() {
				out = TV{V: e.loadGlobal(g, o.Type(), nil), Ty: o.Type()}
			})
			return out
		}
	}
	e.evalFail(env, "cannot use %s in a contract", obj.Name())
	return TV{}
}

func (e *Enc) importByName(env *Env, name string) *types.Package {
	if env.pkg == nil {
		return nil
	}
	for _, imp := range env.pkg.Imports() {
		if imp.Name() == name {
			return imp
		}
	}
	// any loaded package with that name
	return e.L.pkgByName(name)
}

func (e *Enc) evalSelector(env *Env, n *ast.SelectorExpr) TV {
	if id, ok := n.X.(*ast.Ident); ok {
		if _, shadow := env.names[id.Name]; !shadow {
			if pkg := e.importByName(env, id.Name); pkg != nil {
				obj := pkg.Scope().Lookup(n.Sel.Name)
				if obj == nil {
					e.evalFail(env, "%s.%s not found", id.Name, n.Sel.Name)
				}
				return e.objValue(env, obj)
			}
		}
	}
	b := e.eval(env, n.X)
	return e.selectField(env, b, n.Sel.Name)
}

// evalAddr: the address of x.f (x a pointer to a struct, or x.f itself a
// struct field chain) or of a package-level variable; used by held().
func (e *Enc) evalAddr(env *Env, x ast.Expr) Val {
	switch n := x.(type) {
	case *ast.Ident:
		if env.pkg != nil {
			if v, ok := env.pkg.Scope().Lookup(n.Name).(*types.Var); ok {
				if g := e.L.globalByObj(v); g != nil {
					return Ptr{K: pGlobal, Glob: g, Elem: v.Type()}
				}
			}
		}
	case *ast.SelectorExpr:
		// base: a pointer value (x, x.r with r a pointer field) or the address
		// of an embedded struct (x.inner)
		var base Val
		var bt types.Type
		b := e.eval(env, n.X)
		if b.Ty != nil {
			if _, isPtr := b.Ty.Underlying().(*types.Pointer); isPtr {
				base, bt = b.V, b.Ty
			}
		}
		if base == nil {
			if inner, ok := n.X.(*ast.SelectorExpr); ok {
				if p, ok := e.evalAddr(env, inner).(Ptr); ok {
					base, bt = p, types.NewPointer(p.Elem)
				}
			}
		}
		p, ok := base.(Ptr)
		if !ok || bt == nil {
			e.evalFail(env, "address of a field of %T", base)
		}
		pt, ok := bt.Underlying().(*types.Pointer)
		if !ok {
			e.evalFail(env, "address of a field of non-pointer %s", bt)
		}
		st, ok := pt.Elem().Underlying().(*types.Struct)
		if !ok {
			e.evalFail(env, "address of a field of non-struct %s", pt.Elem())
		}
		for i := 0; i < st.NumFields(); i++ {
			if st.Field(i).Name() == n.Sel.Name {
				np := p
				np.Path = append(append([]int(nil), p.Path...), i)
				np.Elem = st.Field(i).Type()
				return np
			}
		}
	}
	e.evalFail(env, "cannot take the address of this expression")
	return nil
}

func (e *Enc) selectField(env *Env, b TV, name string) TV {
	if b.Ty == nil {
		e.evalFail(env, "field %s of untyped value", name)
	}
	t := b.Ty
	isPtr := false
	if p, ok := t.Underlying().(*types.Pointer); ok {
		t = p.Elem()
		isPtr = true
	}
	st, ok := t.Underlying().(*types.Struct)
	if !ok {
		e.evalFail(env, "field %s of non-struct %s", name, t)
	}
	for i := 0; i < st.NumFields(); i++ {
		if st.Field(i).Name() != name {
			continue
		}
		ft := st.Field(i).Type()
		if isPtr {
			p, ok := b.V.(Ptr)
			if !ok {
				e.evalFail(env, "field of %T", b.V)
			}
			np := p
			np.Path = append(append([]int(nil), p.Path...), i)
			np.Elem = ft
			var out TV
			e.withState(env.st, func() { out = TV{V: e.load(np, ft), Ty: ft} })
			return out
		}
		s, ok := b.V.(St)
		if !ok {
			e.evalFail(env, "field of %T", b.V)
		}
		return TV{V: s.F[i], Ty: ft}
	}
	e.evalFail(env, "no field %s in %s", name, t)
	return TV{}
}

func (e *Enc) evalBinary(env *Env, n *ast.BinaryExpr) TV {
	switch n.Op {
	case token.LAND:
		return TV{V: Sc{and(e.asBool(env, e.eval(env, n.X)), e.asBool(env, e.eval(env, n.Y)))}, Ty: types.Typ[types.Bool]}
	case token.LOR:
		return TV{V: Sc{or(e.asBool(env, e.eval(env, n.X)), e.asBool(env, e.eval(env, n.Y)))}, Ty: types.Typ[types.Bool]}
	}
	a, b := e.eval(env, n.X), e.eval(env, n.Y)
	if a.Const != nil && b.Const != nil {
		switch n.Op {
		case token.EQL, token.NEQ, token.LSS, token.LEQ, token.GTR, token.GEQ:
			return TV{Const: constant.MakeBool(constant.Compare(a.Const, n.Op, b.Const))}
		case token.SHL, token.SHR:
			s, _ := constant.Uint64Val(b.Const)
			return TV{Const: constant.Shift(a.Const, n.Op, uint(s)), Ty: a.Ty}
		case token.QUO:
			return TV{Const: constant.BinaryOp(a.Const, token.QUO_ASSIGN, b.Const), Ty: a.Ty}
		}
		ty := a.Ty
		if ty == nil {
			ty = b.Ty
		}
		return TV{Const: constant.BinaryOp(a.Const, n.Op, b.Const), Ty: ty}
	}
	var av, bvv Val
	var at, bt types.Type
	if a.Const != nil {
		bvv, bt = e.materialize(env, b, nil)
		av, at = e.materialize(env, TV{Const: a.Const}, bt)
	} else {
		av, at = e.materialize(env, a, nil)
		if n.Op == token.SHL || n.Op == token.SHR {
			bvv, bt = e.materialize(env, TV{Const: b.Const, V: b.V, Ty: b.Ty}, at)
		} else if b.Const != nil {
			bvv, bt = e.materialize(env, TV{Const: b.Const}, at)
		} else {
			bvv, bt = e.materialize(env, b, at)
		}
	}
	_ = bt
	switch n.Op {
	case token.EQL, token.NEQ:
		var c T
		// comparison with nil
		if isNilOp(bvv) {
			c = e.isNil(env, av)
		} else if isNilOp(av) {
			c = e.isNil(env, bvv)
		} else {
			e.withState(env.st, func() { c = e.eqVal(av, bvv) })
			// equality of two sequence ids: remember the pair (extensionality instance)
			if x, ok := av.(Sc); ok && x.Sort == "BSeq" {
				if y, ok := bvv.(Sc); ok {
					ta, oka := e.seqByID[x.S]
					tb, okb := e.seqByID[y.S]
					if oka && okb {
						e.recordSeqPair(ta, tb)
					}
				}
			}
		}
		if n.Op == token.NEQ {
			c = not(c)
		}
		return TV{V: Sc{c}, Ty: types.Typ[types.Bool]}
	}
	sa, ok1 := av.(Sc)
	sb, ok2 := bvv.(Sc)
	if !ok1 || !ok2 {
		e.evalFail(env, "operator %s on %T and %T", n.Op, av, bvv)
	}
	if sa.Sort != sb.Sort {
		if sa.Sort == SBool || sb.Sort == SBool {
			e.evalFail(env, "operator %s on mixed bool/int", n.Op)
		}
		if n.Op != token.SHL && n.Op != token.SHR {
			e.evalFail(env, "operator %s on different integer types (%s, %s): add a conversion", n.Op, sa.Sort, sb.Sort)
		}
	}
	signed := at != nil && isSigned(at)
	if at == nil {
		signed = true
	}
	w := sortWidth(sa.Sort)
	switch n.Op {
	case token.ADD:
		return TV{V: Sc{add(sa.T, sb.T)}, Ty: at}
	case token.SUB:
		return TV{V: Sc{sub(sa.T, sb.T)}, Ty: at}
	case token.MUL:
		return TV{V: Sc{bvbin("bvmul", sa.T, sb.T)}, Ty: at}
	case token.QUO:
		op := "bvudiv"
		if signed {
			op = "bvsdiv"
		}
		return TV{V: Sc{bvbin(op, sa.T, sb.T)}, Ty: at}
	case token.REM:
		op := "bvurem"
		if signed {
			op = "bvsrem"
		}
		return TV{V: Sc{bvbin(op, sa.T, sb.T)}, Ty: at}
	case token.AND:
		return TV{V: Sc{bvbin("bvand", sa.T, sb.T)}, Ty: at}
	case token.OR:
		return TV{V: Sc{bvbin("bvor", sa.T, sb.T)}, Ty: at}
	case token.XOR:
		return TV{V: Sc{bvbin("bvxor", sa.T, sb.T)}, Ty: at}
	case token.AND_NOT:
		return TV{V: Sc{bvbin("bvand", sa.T, app(sb.Sort, "bvnot", sb.T))}, Ty: at}
	case token.SHL, token.SHR:
		c2 := zext(sb.T, w)
		op := "bvshl"
		if n.Op == token.SHR {
			op = "bvlshr"
			if signed {
				op = "bvashr"
			}
		}
		return TV{V: Sc{bvbin(op, sa.T, c2)}, Ty: at}
	case token.LSS, token.LEQ, token.GTR, token.GEQ:
		ops := map[bool]map[token.Token]string{
			true:  {token.LSS: "bvslt", token.LEQ: "bvsle", token.GTR: "bvsgt", token.GEQ: "bvsge"},
			false: {token.LSS: "bvult", token.LEQ: "bvule", token.GTR: "bvugt", token.GEQ: "bvuge"}}
		return TV{V: Sc{bvcmp(ops[signed][n.Op], sa.T, sb.T)}, Ty: types.Typ[types.Bool]}
	}
	e.evalFail(env, "unsupported operator %s", n.Op)
	return TV{}
}

func isNilOp(v Val) bool {
	o, ok := v.(Op)
	return ok && o.Typ == nil && o.Id.S == bv64(0).S
}

func (e *Enc) isNil(env *Env, v Val) T {
	switch x := v.(type) {
	case Sl:
		return eq(x.Arr, bv64(0))
	case Ifc:
		return eq(x.Id, bv64(0))
	case Ptr:
		if x.K == pHeap && len(x.Path) == 0 {
			return eq(x.Ref, bv64(0))
		}
		return tFalse
	case Op:
		return eq(x.Id, bv64(0))
	case Fn:
		return tFalse
	}
	e.evalFail(env, "nil comparison of %T", v)
	return tFalse
}

func (e *Enc) evalArgs(env *Env, args []ast.Expr) []TV {
	out := make([]TV, len(args))
	for i, a := range args {
		out[i] = e.eval(env, a)
	}
	return out
}

func (e *Enc) asSl(env *Env, tv TV) Sl {
	switch s := tv.V.(type) {
	case Sl:
		return s
	case Str:
		return Sl{Arr: s.Arr, Off: s.Off, Len: s.Len, Cap: s.Len, Elem: types.Typ[types.Uint8]}
	case Op:
		if isNilOp(s) {
			return Sl{Arr: bv64(0), Off: bv64(0), Len: bv64(0), Cap: bv64(0), Elem: types.Typ[types.Uint8]}
		}
	}
	if tv.Const != nil && tv.Const.Kind() == constant.String {
		s := e.strConst(constant.StringVal(tv.Const))
		return Sl{Arr: s.Arr, Off: s.Off, Len: s.Len, Cap: s.Len, Elem: types.Typ[types.Uint8]}
	}
	e.evalFail(env, "expected a byte slice or string, got %T", tv.V)
	return Sl{}
}

func (e *Enc) asInt(env *Env, tv TV) T {
	v, t := e.materialize(env, tv, types.Typ[types.Int])
	return e.idx64(v, t)
}

func (e *Enc) evalCall(env *Env, n *ast.CallExpr) TV {
	// method-style spec calls are not supported; only plain names and pkg.Type conversions
	name := ""
	switch f := n.Fun.(type) {
	case *ast.Ident:
		name = f.Name
	case *ast.SelectorExpr:
		if id, ok := f.X.(*ast.Ident); ok {
			if pkg := e.importByName(env, id.Name); pkg != nil {
				if tn, ok := pkg.Scope().Lookup(f.Sel.Name).(*types.TypeName); ok {
					return e.evalConv(env, tn.Type(), n.Args)
				}
			}
		}
		// method call on a value: only deterministic pure functions (contract "function")
		if fn, recvArgs, disp := e.findCallee(env.pkg, n.Fun, env); fn != nil {
			con := e.L.contractOf(fn)
			if con == nil || !con.Function {
				e.evalFail(env, "%s is not a contract `function`", disp)
			}
			var args []Val
			for i, a := range append(recvArgs, n.Args...) {
				tv := e.eval(env, a)
				var pt types.Type
				if i < len(fn.Params) {
					pt = fn.Params[i].Type()
				}
				v, _ := e.materialize(env, tv, pt)
				args = append(args, v)
			}
			rt := fn.Signature.Results().At(0).Type()
			return TV{V: e.funcResult(con, e.L.funcName(fn), 0, rt, args, fn.Signature, fn), Ty: rt}
		}
		e.evalFail(env, "unsupported call %v", types.ExprString(n.Fun))
	case *ast.ParenExpr, *ast.StarExpr, *ast.ArrayType:
		e.evalFail(env, "unsupported conversion syntax")
	}
	boolT := types.Typ[types.Bool]
	intT := types.Typ[types.Int]
	switch name {
	case "old":
		if env.old == nil {
			e.evalFail(env, "old() not available here")
		}
		c := env.child()
		c.st = env.old
		for k, v := range env.oldNames {
			c.names[k] = v
		}
		return e.eval(c, n.Args[0])
	case "pointsTo":
		// pointsTo(p, x.f): the pointer value p is the address of the field
		// (or embedded struct) x.f
		pv := e.eval(env, n.Args[0])
		pp, ok1 := pv.V.(Ptr)
		ap, ok2 := e.evalAddr(env, n.Args[1]).(Ptr)
		if !ok1 || !ok2 {
			e.evalFail(env, "pointsTo expects a pointer and a field expression")
		}
		same := pp.K == ap.K && len(pp.Path) == len(ap.Path)
		if same {
			for i := range pp.Path {
				if pp.Path[i] != ap.Path[i] {
					same = false
				}
			}
		}
		if !same || pp.K != pHeap {
			return TV{V: Sc{tFalse}, Ty: boolT}
		}
		return TV{V: Sc{eq(pp.Ref, ap.Ref)}, Ty: boolT}
	case "atHead":
		// atHead(x): x as it was at the head of the iteration that just ended
		// (loop step clauses only)
		if env.head == nil {
			e.evalFail(env, "atHead() is only available in loop step clauses")
		}
		c := env.child()
		c.st = env.head
		return e.eval(c, n.Args[0])
	case "len":
		a := e.eval(env, n.Args[0])
		if a.Const != nil && a.Const.Kind() == constant.String {
			return TV{Const: constant.MakeInt64(int64(len(constant.StringVal(a.Const))))}
		}
		switch s := a.V.(type) {
		case Sl:
			return TV{V: Sc{s.Len}, Ty: intT}
		case Str:
			return TV{V: Sc{s.Len}, Ty: intT}
		}
		e.evalFail(env, "len of %T", a.V)
	case "cap":
		a := e.eval(env, n.Args[0])
		if s, ok := a.V.(Sl); ok {
			return TV{V: Sc{s.Cap}, Ty: intT}
		}
		e.evalFail(env, "cap of %T", a.V)
	case "implies":
		return TV{V: Sc{implies(e.asBool(env, e.eval(env, n.Args[0])), e.asBool(env, e.eval(env, n.Args[1])))}, Ty: boolT}
	case "iff":
		return TV{V: Sc{eq(e.asBool(env, e.eval(env, n.Args[0])), e.asBool(env, e.eval(env, n.Args[1])))}, Ty: boolT}
	case "ite":
		c := e.asBool(env, e.eval(env, n.Args[0]))
		a, b := e.eval(env, n.Args[1]), e.eval(env, n.Args[2])
		var av, bv2 Val
		var at types.Type
		if a.Const != nil && b.Const == nil {
			bv2, at = e.materialize(env, b, nil)
			av, _ = e.materialize(env, a, at)
		} else {
			av, at = e.materialize(env, a, nil)
			bv2, _ = e.materialize(env, b, at)
		}
		if isNilOp(bv2) {
			bv2 = e.zeroVal(at)
		}
		if isNilOp(av) {
			av = e.zeroVal(at)
		}
		return TV{V: e.iteVal(c, av, bv2), Ty: at}
	case "forall", "exists":
		if len(n.Args) != 4 {
			e.evalFail(env, "%s(i, lo, hi, body) expects 4 arguments", name)
		}
		id, ok := n.Args[0].(*ast.Ident)
		if !ok {
			e.evalFail(env, "%s: first argument must be a name", name)
		}
		lo := e.asInt(env, e.eval(env, n.Args[1]))
		hi := e.asInt(env, e.eval(env, n.Args[2]))
		if lv, ok1 := litVal(lo); ok1 {
			if hv, ok2 := litVal(hi); ok2 && hv >= lv && hv-lv <= 32 {
				// small constant range: expand (keeps the query quantifier-free)
				var cs []T
				for k := lv; k < hv; k++ {
					c := env.child()
					c.names[id.Name] = TV{V: Sc{bv64(k)}, Ty: intT}
					cs = append(cs, e.asBool(c, e.eval(c, n.Args[3])))
				}
				if name == "forall" {
					return TV{V: Sc{and(cs...)}, Ty: boolT}
				}
				return TV{V: Sc{or(cs...)}, Ty: boolT}
			}
		}
		e.nfresh++
		qv := T{fmt.Sprintf("%s!q%d", id.Name, e.nfresh), SBV64}
		c := env.child()
		c.names[id.Name] = TV{V: Sc{qv}, Ty: intT}
		body := e.asBool(c, e.eval(c, n.Args[3]))
		rng := and(sle(lo, qv), slt(qv, hi))
		if name == "forall" {
			return TV{V: Sc{T{fmt.Sprintf("(forall ((%s %s)) %s)", qv.S, SBV64, implies(rng, body).S), SBool}}, Ty: boolT}
		}
		return TV{V: Sc{T{fmt.Sprintf("(exists ((%s %s)) %s)", qv.S, SBV64, and(rng, body).S), SBool}}, Ty: boolT}
	case "seqof":
		a := e.asSl(env, e.eval(env, n.Args[0]))
		var out T
		e.withState(env.st, func() { out = e.seqOf(env.st, a) })
		return TV{V: Sc{out}, Ty: nil}
	case "seqLen":
		a := e.eval(env, n.Args[0])
		sc, ok := a.V.(Sc)
		if !ok || sc.Sort != "BSeq" {
			e.evalFail(env, "seqLen expects a sequence value")
		}
		e.usesSeq = true
		return TV{V: Sc{T{"(seqlen " + sc.S + ")", SBV64}}, Ty: intT}
	case "seqEq":
		a, b := e.asSl(env, e.eval(env, n.Args[0])), e.asSl(env, e.eval(env, n.Args[1]))
		var out T
		e.withState(env.st, func() { out = e.seqEq2(env.st, a, env.st, b) })
		return TV{V: Sc{out}, Ty: boolT}
	case "seqEqOld": // seqEqOld(a_now, b_then): b is read in the entry state
		a, b := e.asSl(env, e.eval(env, n.Args[0])), e.asSl(env, e.eval(env, n.Args[1]))
		var out T
		e.withState(env.st, func() { out = e.seqEq2(env.st, a, env.old, b) })
		return TV{V: Sc{out}, Ty: boolT}
	case "sameSlice":
		a, b := e.asSl(env, e.eval(env, n.Args[0])), e.asSl(env, e.eval(env, n.Args[1]))
		return TV{V: Sc{and(eq(a.Arr, b.Arr), eq(a.Off, b.Off), eq(a.Len, b.Len))}, Ty: boolT}
	case "sameArray":
		a, b := e.asSl(env, e.eval(env, n.Args[0])), e.asSl(env, e.eval(env, n.Args[1]))
		return TV{V: Sc{eq(a.Arr, b.Arr)}, Ty: boolT}
	case "held", "rheld":
		// held(x.mu): the mutex is locked by this goroutine (lockset.go)
		var pv Val
		func() {
			defer func() {
				if r := recover(); r != nil {
					if _, ok := r.(evalError); ok {
						pv = nil
						return
					}
					panic(r)
				}
			}()
			pv = e.evalAddr(env, n.Args[0])
		}()
		p, ok := pv.(Ptr)
		if !ok {
			e.evalFail(env, "held() expects a mutex field (x.mu) or package-level mutex")
		}
		key, idx, ok := e.lockKey(p, name == "rheld")
		if !ok {
			e.evalFail(env, "held(): mutex of unknown identity")
		}
		return TV{V: Sc{sel(e.getVar(env.st, key, lockSort), idx)}, Ty: boolT}
	case "inMap":
		// inMap(m, k): the ",ok" result of m[k] in this state
		b := e.eval(env, n.Args[0])
		mt, isMap := b.Ty.Underlying().(*types.Map)
		m, isOp := b.V.(Op)
		if !isMap || !isOp || !modelledElem(mt) {
			e.evalFail(env, "inMap expects a modelled map")
		}
		kv, _ := e.materialize(env, e.eval(env, n.Args[1]), mt.Key())
		var ok T
		e.withState(env.st, func() { _, ok = e.mapRead(env.st, mt, m.Id, kv) })
		return TV{V: Sc{ok}, Ty: boolT}
	case "refOf":
		// identity of the object a pointer refers to (as a number, for ghost variables)
		a := e.eval(env, n.Args[0])
		if p, ok := a.V.(Ptr); ok && (p.K == pHeap || p.K == pOpaque) {
			return TV{V: Sc{p.Ref}, Ty: types.Typ[types.Uint64]}
		}
		if i, ok := a.V.(Ifc); ok {
			// an interface value that statically holds a pointer
			if p, ok := i.Dyn.(Ptr); ok && (p.K == pHeap || p.K == pOpaque) {
				return TV{V: Sc{p.Ref}, Ty: types.Typ[types.Uint64]}
			}
		}
		if isNilOp(a.V) {
			return TV{V: Sc{bv64(0)}, Ty: types.Typ[types.Uint64]}
		}
		e.evalFail(env, "refOf expects a pointer to an object")
	case "arrayOf", "offsetOf":
		// identity of a slice's backing array / its offset in it (as numbers, so
		// that ghost variables can remember a slice seen earlier)
		a := e.asSl(env, e.eval(env, n.Args[0]))
		if name == "arrayOf" {
			return TV{V: Sc{a.Arr}, Ty: types.Typ[types.Uint64]}
		}
		return TV{V: Sc{a.Off}, Ty: types.Typ[types.Uint64]}
	case "disjoint":
		a, b := e.asSl(env, e.eval(env, n.Args[0])), e.asSl(env, e.eval(env, n.Args[1]))
		// different backing arrays (or one of them nil)
		return TV{V: Sc{or(not(eq(a.Arr, b.Arr)), eq(a.Arr, bv64(0)))}, Ty: boolT}
	case "unchangedOutside":
		// unchangedOutside(s, lo, hi): every byte of s's backing array outside
		// s[lo:hi] has its entry value
		a := e.asSl(env, e.eval(env, n.Args[0]))
		lo := e.asInt(env, e.eval(env, n.Args[1]))
		hi := e.asInt(env, e.eval(env, n.Args[2]))
		if env.old == nil {
			e.evalFail(env, "unchangedOutside needs an entry state")
		}
		e.nfresh++
		q := fmt.Sprintf("j!%d", e.nfresh)
		now := e.constFor("uoNow", sel(e.byteMem(env.st), a.Arr))
		then := e.constFor("uoThen", sel(e.byteMem(env.old), a.Arr))
		return TV{V: Sc{T{fmt.Sprintf("(forall ((%s (_ BitVec 64))) (! (=> (not (bvult (bvsub %s %s) %s)) (= (select %s %s) (select %s %s))) :pattern ((select %s %s))))",
			q, q, add(a.Off, lo).S, sub(hi, lo).S, now.S, q, then.S, q, now.S, q), SBool}}, Ty: boolT}
	case "oldMemUnchanged":
		// every byte array that existed at function entry still has its entry contents
		if env.old == nil {
			e.evalFail(env, "oldMemUnchanged needs an entry state")
		}
		e.nfresh++
		q := fmt.Sprintf("a!%d", e.nfresh)
		now := e.constFor("omNow", e.byteMem(env.st))
		then := e.constFor("omThen", e.byteMem(env.old))
		return TV{V: Sc{T{fmt.Sprintf("(forall ((%s (_ BitVec 64))) (! (=> (bvult %s %s) (= (select %s %s) (select %s %s))) :pattern ((select %s %s))))",
			q, q, env.old.allocArr.S, now.S, q, then.S, q, now.S, q), SBool}}, Ty: boolT}
	case "hasPrefix":
		a := e.eval(env, n.Args[0])
		pfx := e.eval(env, n.Args[1])
		if pfx.Const == nil {
			e.evalFail(env, "hasPrefix: second argument must be a string constant")
		}
		sv, ok := a.V.(Str)
		if !ok {
			e.evalFail(env, "hasPrefix of %T", a.V)
		}
		var out T
		e.withState(env.st, func() { out = e.hasPrefix(sv, constant.StringVal(pfx.Const)) })
		return TV{V: Sc{out}, Ty: boolT}
	case "isnil":
		a := e.eval(env, n.Args[0])
		return TV{V: Sc{e.isNil(env, a.V)}, Ty: boolT}
	case "fresh":
		// allocated during this call
		a := e.asSl(env, e.eval(env, n.Args[0]))
		if env.old == nil {
			e.evalFail(env, "fresh() needs an entry state")
		}
		return TV{V: Sc{and(ule(env.old.allocArr, a.Arr), ult(a.Arr, env.st.allocArr))}, Ty: boolT}
	case "freshObj":
		// the pointer refers to an object allocated during this call
		a := e.eval(env, n.Args[0])
		p, ok := a.V.(Ptr)
		if !ok || p.K != pHeap || env.old == nil {
			e.evalFail(env, "freshObj expects a heap pointer")
		}
		return TV{V: Sc{and(ule(env.old.allocRef, p.Ref), ult(p.Ref, env.st.allocRef))}, Ty: boolT}
	case "be64", "be32", "be16", "le64", "le32", "le16":
		s := e.asSl(env, e.eval(env, n.Args[0]))
		off := bv64(0)
		if len(n.Args) > 1 {
			off = e.asInt(env, e.eval(env, n.Args[1]))
		}
		nb := map[string]int{"be64": 8, "be32": 4, "be16": 2, "le64": 8, "le32": 4, "le16": 2}[name]
		var t T
		if e.opaqueReads {
			t = e.opaqueRead(env.st, s, off, nb, name[0] == 'b')
		} else {
			t = e.readInt(env.st, s, off, nb, name[0] == 'b')
		}
		ty := map[int]types.Type{8: types.Typ[types.Uint64], 4: types.Typ[types.Uint32], 2: types.Typ[types.Uint16]}[nb]
		return TV{V: Sc{t}, Ty: ty}
	case "lexLess", "lexLE":
		a, b := e.asSl(env, e.eval(env, n.Args[0])), e.asSl(env, e.eval(env, n.Args[1]))
		var out T
		e.withState(env.st, func() {
			c := e.bytesCompare(a, b)
			if name == "lexLess" {
				out = slt(c, bv64(0))
			} else {
				out = sle(c, bv64(0))
			}
		})
		return TV{V: Sc{out}, Ty: boolT}
	}
	// conversions to basic / named types in scope
	if tn, ok := types.Universe.Lookup(name).(*types.TypeName); ok {
		return e.evalConv(env, tn.Type(), n.Args)
	}
	if env.pkg != nil {
		if tn, ok := env.pkg.Scope().Lookup(name).(*types.TypeName); ok {
			return e.evalConv(env, tn.Type(), n.Args)
		}
	}
	if sf, ok := e.L.Contracts.Specs[name]; ok {
		if len(sf.Params) != len(n.Args) {
			e.evalFail(env, "spec %s expects %d arguments", name, len(sf.Params))
		}
		c := &Env{names: map[string]TV{}, st: env.st, old: env.old, pkg: env.pkg, where: env.where + ">" + name, oldNames: env.oldNames}
		for i, p := range sf.Params {
			c.names[p] = e.eval(env, n.Args[i])
		}
		if e.opaqueReads && sf.Opaque && len(sf.Params) == 1 {
			return e.opaqueSpec(env, sf, c)
		}
		if e.opaqueNames[name] {
			return e.opaqueScalarSpec(env, sf, c)
		}
		return e.eval(c, sf.Body)
	}
	e.evalFail(env, "unknown function %q", name)
	return TV{}
}

func (e *Enc) evalConv(env *Env, to types.Type, args []ast.Expr) TV {
	if len(args) != 1 {
		e.evalFail(env, "conversion expects one argument")
	}
	a := e.eval(env, args[0])
	if a.Const != nil {
		if b, ok := to.Underlying().(*types.Basic); ok && b.Info()&types.IsInteger != 0 && a.Const.Kind() == constant.Int {
			return TV{Const: a.Const, Ty: to}
		}
		v, t := e.materialize(env, a, nil)
		a = TV{V: v, Ty: t}
	}
	if isNilOp(a.V) {
		return TV{V: e.zeroVal(to), Ty: to}
	}
	var out Val
	e.withState(env.st, func() { out = e.convert(a.V, a.Ty, to) })
	return TV{V: out, Ty: to}
}

// readInt reads an nb-byte integer at s[off:].
// opaqueSpec: relational mode. A spec function of one byte slice becomes an
// uninterpreted function of (array contents, offset, length). Its definition
// is used, and proved against the code, in the per-function obligations.
func (e *Enc) opaqueSpec(env *Env, sf *SpecFunc, c *Env) TV {
	arg := c.names[sf.Params[0]]
	s := e.asSl(env, arg)
	srt, ok := e.specSorts[sf.Name]
	if !ok {
		// evaluate the definition once to learn the result sort
		nl, nt, np, no := len(e.lines), len(e.seqTerms), len(e.seqPairs), len(e.opaqueSeqs)
		r := e.eval(c, sf.Body)
		v, t := e.materialize(c, r, nil)
		e.lines, e.seqTerms, e.seqPairs, e.opaqueSeqs = e.lines[:nl], e.seqTerms[:nt], e.seqPairs[:np], e.opaqueSeqs[:no]
		sc, isSc := v.(Sc)
		if !isSc {
			e.evalFail(env, "opaque spec %s must return a scalar", sf.Name)
		}
		srt = specSort{sort: sc.Sort, ty: t}
		if e.specSorts == nil {
			e.specSorts = map[string]specSort{}
		}
		e.specSorts[sf.Name] = srt
		if srt.sort == "BSeq" {
			e.usesSeq = true
		}
	}
	arr := e.constFor("spa", sel(e.byteMem(env.st), s.Arr))
	t := T{fmt.Sprintf("(u_%s %s %s %s)", sf.Name, arr.S, s.Off.S, s.Len.S), srt.sort}
	if srt.sort == "BSeq" && e.loopDry == 0 {
		e.opaqueSeqs = append(e.opaqueSeqs, opaqueSeqAt{t.S, len(e.lines)})
	}
	return TV{V: Sc{t}, Ty: srt.ty}
}

// opaqueScalarSpec: a check may ask for a spec function of scalar arguments to
// be treated as uninterpreted (props: "opaque_specs"); its declared facts
// (specfact) are assumed for every application. Fewer facts than the
// definition: sound, and it keeps big closed-form definitions out of queries
// that only need them to be functions.
func (e *Enc) opaqueScalarSpec(env *Env, sf *SpecFunc, c *Env) TV {
	var args []T
	for _, p := range sf.Params {
		if c.names[p].Const == nil {
			// a byte slice argument: (array contents, offset, length)
			var sl Sl
			isSl := false
			switch x := c.names[p].V.(type) {
			case Sl:
				sl, isSl = x, true
			case Str:
				sl, isSl = Sl{Arr: x.Arr, Off: x.Off, Len: x.Len, Cap: x.Len}, true
			}
			if isSl {
				args = append(args, e.constFor("spa", sel(e.byteMem(env.st), sl.Arr)), sl.Off, sl.Len)
				continue
			}
		}
		v, _ := e.materialize(c, c.names[p], types.Typ[types.Uint64])
		sc, ok := v.(Sc)
		if !ok {
			e.evalFail(env, "opaque spec %s needs scalar or byte-slice arguments", sf.Name)
		}
		args = append(args, sc.T)
	}
	srt, ok := e.specSorts[sf.Name]
	if !ok {
		nl := len(e.lines)
		saved := e.opaqueNames
		e.opaqueNames = nil
		r := e.eval(c, sf.Body)
		e.opaqueNames = saved
		v, t := e.materialize(c, r, nil)
		e.lines = e.lines[:nl]
		sc, isSc := v.(Sc)
		if !isSc {
			e.evalFail(env, "opaque spec %s must return a scalar", sf.Name)
		}
		srt = specSort{sort: sc.Sort, ty: t}
		if e.specSorts == nil {
			e.specSorts = map[string]specSort{}
		}
		e.specSorts[sf.Name] = srt
		var sorts []string
		for _, a := range args {
			sorts = append(sorts, a.Sort)
		}
		if e.ufDecls == nil {
			e.ufDecls = map[string]string{}
		}
		e.ufDecls["us_"+sf.Name] = fmt.Sprintf("(declare-fun us_%s (%s) %s)", sf.Name, strings.Join(sorts, " "), sc.Sort)
	}
	t := T{"(us_" + sf.Name, srt.sort}
	for _, a := range args {
		t.S += " " + a.S
	}
	t.S += ")"
	if sf.Fact != nil && !e.factsDone[t.S] {
		if e.factsDone == nil {
			e.factsDone = map[string]bool{}
		}
		e.factsDone[t.S] = true
		f := e.asBool(c, e.eval(c, sf.Fact))
		e.emit("(assert " + f.S + ")")
	}
	return TV{V: Sc{t}, Ty: srt.ty}
}

type specSort struct {
	sort string
	ty   types.Type
}

type opaqueSeqAt struct {
	term string
	at   int
}

// opaqueRead: relational mode. Multi-byte and single-byte reads in contract
// expressions are uninterpreted functions of (array contents, index); the
// definitions are used (and proved against the code) in the per-function
// obligations only.
func (e *Enc) opaqueRead(st *State, s Sl, off T, nb int, bigEndian bool) T {
	end := "le"
	if bigEndian {
		end = "be"
	}
	fn := fmt.Sprintf("rd%d%s", nb*8, end)
	if nb == 1 {
		fn = "rd8"
	}
	arr := e.constFor("rda", sel(e.byteMem(st), s.Arr))
	return T{fmt.Sprintf("(%s %s %s)", fn, arr.S, add(s.Off, off).S), bvSort(nb * 8)}
}

const preludeOpaque = `(declare-fun rd8 ((Array (_ BitVec 64) (_ BitVec 8)) (_ BitVec 64)) (_ BitVec 8))
(declare-fun rd16be ((Array (_ BitVec 64) (_ BitVec 8)) (_ BitVec 64)) (_ BitVec 16))
(declare-fun rd32be ((Array (_ BitVec 64) (_ BitVec 8)) (_ BitVec 64)) (_ BitVec 32))
(declare-fun rd64be ((Array (_ BitVec 64) (_ BitVec 8)) (_ BitVec 64)) (_ BitVec 64))
(declare-fun rd16le ((Array (_ BitVec 64) (_ BitVec 8)) (_ BitVec 64)) (_ BitVec 16))
(declare-fun rd32le ((Array (_ BitVec 64) (_ BitVec 8)) (_ BitVec 64)) (_ BitVec 32))
(declare-fun rd64le ((Array (_ BitVec 64) (_ BitVec 8)) (_ BitVec 64)) (_ BitVec 64))
`

func (e *Enc) readInt(st *State, s Sl, off T, nb int, bigEndian bool) T {
	var t T
	bs := make([]T, nb) // most significant first
	for i := 0; i < nb; i++ {
		b := e.byteAt(st, s, add(off, bv64(uint64(i))))
		if bigEndian {
			bs[i] = b
		} else {
			bs[nb-1-i] = b
		}
		if i == 0 {
			t = b
		} else if bigEndian {
			t = concat(t, b)
		} else {
			t = concat(b, t)
		}
	}
	if e.concatBytes == nil {
		e.concatBytes = map[string][]T{}
	}
	e.concatBytes[t.S] = bs
	return t
}

// eqScalar is equality on scalars that compares multi-byte memory reads byte
// by byte (keeps the solver from case-splitting on an 8-byte concat at once).
func (e *Enc) eqScalar(a, b T) T {
	if a.Sort != b.Sort {
		return eq(a, b)
	}
	ba, oka := e.concatBytes[a.S]
	bb, okb := e.concatBytes[b.S]
	if !oka && !okb {
		return eq(a, b)
	}
	n := len(ba)
	if !oka {
		n = len(bb)
	}
	var cs []T
	for i := 0; i < n; i++ {
		hi, lo := 8*(n-i)-1, 8*(n-i-1)
		var x, y T
		if oka {
			x = ba[i]
		} else {
			x = extract(a, hi, lo)
		}
		if okb {
			y = bb[i]
		} else {
			y = extract(b, hi, lo)
		}
		cs = append(cs, eq(x, y))
	}
	return and(cs...)
}
