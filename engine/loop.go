package main

import (
	"fmt"
	"regexp"
	"strconv"
	"strings"
	"go/ast"
	"go/parser"
	"go/token"
	"go/types"
	"sort"

	"golang.org/x/tools/go/ssa"
)

var exprCache = map[string]ast.Expr{}

func parseExprCached(s string) (ast.Expr, error) {
	if x, ok := exprCache[s]; ok {
		return x, nil
	}
	x, err := parser.ParseExpr(rewriteImplies(s))
	if err != nil {
		return nil, fmt.Errorf("cannot parse %q: %v", s, err)
	}
	exprCache[s] = x
	return x, nil
}

// bindLoops attaches loop contracts (keyed by source ordinal) to CFG loops.
func (e *Enc) bindLoops(f *frame, con *Contract) {
	stmts := syntaxLoops(f.fn)
	var heads []*ssa.BasicBlock
	for h := range f.loops {
		heads = append(heads, h)
	}
	sort.Slice(heads, func(i, j int) bool { return heads[i].Index < heads[j].Index })
	if len(stmts) != len(heads) {
		// Loops without a back edge (for { ...; return }) have no CFG loop.
		// Match by position instead: a CFG loop belongs to the innermost
		// syntactic loop containing the first positioned instruction of
		// its header or body.
		if len(con.Loops) > 0 {
			e.errs = append(e.errs, fmt.Sprintf("%s: %d syntactic loops but %d CFG loops: loop contracts cannot be bound (contract-unbound)", f.name, len(stmts), len(heads)))
		}
		return
	}
	for i, h := range heads {
		li := f.loops[h]
		li.ordinal = i
		li.contract = con.Loops[i]
		switch s := stmts[i].(type) {
		case *ast.ForStmt:
			li.pos = s.Body.Lbrace
		case *ast.RangeStmt:
			li.pos = s.Body.Lbrace
		}
	}
	for k := range con.Loops {
		if k >= len(heads) {
			e.errs = append(e.errs, fmt.Sprintf("%s: contract for loop %d but the function has %d loops (contract-unbound)", f.name, k, len(heads)))
		}
	}
}

// cellEnv builds the name environment for invariants / postconditions of the
// function in frame f: source variables resolve (lexically at pos) to their cells.
func (e *Enc) cellEnv(f *frame, pos token.Pos, st *State) *Env {
	if f.hookFrom != nil {
		f, pos = f.hookFrom, f.hookPos
	}
	env := &Env{names: map[string]TV{}, oldNames: map[string]TV{}, st: st, old: f.entrySt}
	pkg, _ := e.L.typesInfoFor(f.fn)
	env.pkg = pkg
	allocs := map[token.Pos]*ssa.Alloc{}
	byName := map[string][]*ssa.Alloc{}
	for _, b := range f.fn.Blocks {
		for _, in := range b.Instrs {
			if a, ok := in.(*ssa.Alloc); ok && a.Comment != "" && a.Pos().IsValid() {
				allocs[a.Pos()] = a
				byName[a.Comment] = append(byName[a.Comment], a)
			}
		}
	}
	for i, p := range f.fn.Params {
		if i < len(f.params) {
			env.oldNames[p.Name()] = TV{V: f.params[i], Ty: p.Type()}
		}
	}
	var scope *types.Scope
	if pkg != nil && pos.IsValid() {
		scope = pkg.Scope().Innermost(pos)
	}
	env.resolveSt = func(st *State, name string) (TV, bool) {
		// "let" names of the function's contract expand in place (current state)
		if f.con != nil {
			for _, l := range f.con.Lets {
				if l.Label == name {
					return e.eval(env, l.Expr), true
				}
			}
		}
		var a *ssa.Alloc
		if scope != nil {
			if _, obj := scope.LookupParent(name, pos); obj != nil && obj.Pos().IsValid() {
				a = allocs[obj.Pos()]
				if a == nil {
					// parameters: the Alloc carries the parameter's position
					for _, c := range byName[name] {
						if c.Pos() == obj.Pos() {
							a = c
						}
					}
				}
			}
		}
		if a == nil && len(byName[name]) == 1 {
			a = byName[name][0]
		}
		// rangeindexN: the hidden index of the N-th range-over-slice loop (in
		// source order); at the loop head it is the index of the iteration
		// just finished (-1 before the first).
		if a == nil && strings.HasPrefix(name, "rangeindex") {
			if n, err := strconv.Atoi(strings.TrimPrefix(name, "rangeindex")); err == nil {
				k := 0
				for _, b := range f.fn.Blocks {
					for _, in := range b.Instrs {
						if c, ok := in.(*ssa.Alloc); ok && c.Comment == "rangeindex" {
							if k == n {
								a = c
							}
							k++
						}
					}
				}
			}
		}
		if a == nil {
			// free variables of closures
			for i, fv := range f.fn.FreeVars {
				if fv.Name() == name && i < len(f.bind) {
					if p, ok := f.bind[i].(Ptr); ok {
						var out TV
						e.withState(st, func() { out = TV{V: e.load(p, p.Elem), Ty: p.Elem} })
						return out, true
					}
				}
			}
			return TV{}, false
		}
		t := deref(a.Type())
		var out TV
		e.withState(st, func() {
			p, _ := f.vals[a].(Ptr)
			if p.K == pHeap {
				out = TV{V: e.load(p, t), Ty: t}
				return
			}
			v, ok := st.cells[a]
			if !ok {
				v = e.zeroVal(t)
			}
			out = TV{V: v, Ty: t}
		})
		return out, true
	}
	env.resolve = func(name string) (TV, bool) { return env.resolveSt(st, name) }
	return env
}

func (e *Enc) enterLoop(f *frame, li *loopInfo, order []*ssa.BasicBlock) {
	if f.skipEnter == li.head {
		return
	}
	lc := li.contract
	label := fmt.Sprintf("%s/loop%d", e.frames[0].name, li.ordinal)
	if f != e.frames[0] {
		label = fmt.Sprintf("%s/%s.loop%d", e.frames[0].name, f.name, li.ordinal)
	}
	if lc == nil && e.dry == 0 {
		e.abstracted["loop-without-invariant(havoc only):"+f.name+fmt.Sprintf("#%d", li.ordinal)]++
	}
	if lc != nil {
		env := e.cellEnv(f, li.pos, e.cur.clone())
		for _, inv := range lc.Invariants {
			n := len(e.obls)
			e.oblige("loop", label+".init."+inv.Label, e.evalBool(env, inv), li.pos)
			if len(e.obls) > n {
				e.obls[n].Env = env
				e.obls[n].ClauseText = inv.Text
			}
		}
	}
	// stage 1: from an arbitrary state, which cells / variables can be written
	wc, wv, _, _, _, _ := e.dryRun(f, li, order, nil, nil)
	// stage 2: with only those forgotten, at which indices are heap fields
	// and arrays written (terms built from unchanged cells are loop-invariant)
	_, _, wfull, widx, wfresh, n0 := e.dryRun(f, li, order, wc, wv)
	// havoc the write set
	var cells []*ssa.Alloc
	for c := range wc {
		cells = append(cells, c)
	}
	sort.Slice(cells, func(i, j int) bool { return cells[i].Pos() < cells[j].Pos() })
	for _, c := range cells {
		if _, live := e.cur.cells[c]; !live {
			continue // declared inside the loop
		}
		t := deref(c.Type())
		v := e.freshVal(t, "lp_"+c.Comment)
		e.assumeLoaded(t, v)
		e.cur.cells[c] = v
	}
	if wv["*"] {
		e.havocAll("loop body")
		// havocAll leaves ghost variables alone (no unknown callee can write
		// them), but the body's own ghost updates are writes like any other
		var gk []string
		for k := range wv {
			if isGhostKey(k) {
				gk = append(gk, k)
			}
		}
		sort.Strings(gk)
		for _, k := range gk {
			srt := SBV64
			if !strings.HasPrefix(k, "G|") {
				srt = lockSort
			}
			e.cur.vars[k] = e.freshT("lp_"+lastPart(k), srt)
		}
	} else {
		var keys []string
		for k := range wv {
			keys = append(keys, k)
		}
		sort.Strings(keys)
		for _, k := range keys {
			old, ok := e.cur.vars[k]
			srt := ""
			if ok {
				srt = old.Sort
			} else if s, ok2 := e.keySorts[k]; ok2 {
				srt = s
			} else {
				continue
			}
			// partial havoc: the loop writes this variable only at indices that
			// are loop-invariant terms (or freshly allocated in the loop)
			partial := !wfull[k] && (strings.HasPrefix(k, "H|") || strings.HasPrefix(k, "M|"))
			var stable []T
			if partial {
				seen := map[string]bool{}
				for _, idx := range widx[k] {
					if wfresh[idx.S] || seen[idx.S] {
						continue
					}
					if !stableTerm(idx, n0) {
						partial = false
						break
					}
					seen[idx.S] = true
					stable = append(stable, idx)
				}
			}
			if partial {
				cur := e.getVar(e.cur, k, srt)
				for _, idx := range stable {
					cur = store(cur, idx, e.freshT("lp_"+lastPart(k), arrElemSort(srt)))
				}
				e.cur.vars[k] = e.def("lpv_"+lastPart(k), cur)
				continue
			}
			e.cur.vars[k] = e.freshT("lp_"+lastPart(k), srt)
		}
		e.bumpAlloc()
	}
	if lc != nil {
		// head snapshots are rewritten in every iteration: arbitrary here, like
		// everything else the body writes (invariants may constrain them: at the
		// head they still describe the previous iteration)
		for _, g := range lc.Heads {
			e.setVar("G|"+g.Var, e.freshT("lp_"+g.Var, SBV64))
		}
		env := e.cellEnv(f, li.pos, e.cur)
		for _, inv := range lc.Invariants {
			e.assume(e.evalBool(env, inv))
		}
		for _, sp := range lc.Splits {
			n := len(e.splitConds)
			e.noteSplit(e.def("c", e.evalBool(env, sp)))
			if len(e.splitConds) > n {
				e.splitConds[n].hint = true
			}
		}
		if lc.Decreases != nil {
			env.where = "decreases"
			m := e.asInt(env, e.evalClauseVal(env, *lc.Decreases))
			li.measure = e.def("measure", m)
			li.hasMeas = true
		}
		// ghost snapshots of the state at the head of the iteration
		// (prev_<v> keeps the previous iteration's snapshot: it is what code
		// after a loop that exits at its head can still refer to)
		var vals []T
		for _, g := range lc.Heads {
			tv := e.evalClauseVal(env, g.Clause)
			v, _ := e.materialize(env, tv, types.Typ[types.Uint64])
			vals = append(vals, e.scalar(v, SBV64))
		}
		for i, g := range lc.Heads {
			e.setVar("G|prev_"+g.Var, e.getVar(e.cur, "G|"+g.Var, SBV64))
			e.setVar("G|"+g.Var, vals[i])
		}
		if e.dry == 0 {
			e.cover(label+".cover.body", tTrue)
		}
		li.headSt = e.cur.clone()
	}
}

func (e *Enc) evalClauseVal(env *Env, c Clause) (out TV) {
	defer func() {
		if r := recover(); r != nil {
			if ee, ok := r.(evalError); ok {
				e.errs = append(e.errs, fmt.Sprintf("%s:%d: %s [%s]", c.File, c.Line, ee.msg, c.Text))
				out = TV{V: Sc{bv64(0)}, Ty: types.Typ[types.Int]}
				return
			}
			panic(r)
		}
	}()
	return e.eval(env, c.Expr)
}

func (e *Enc) backEdge(f *frame, li *loopInfo, from *ssa.BasicBlock) {
	if e.dry > 0 || li.contract == nil {
		return
	}
	lc := li.contract
	label := fmt.Sprintf("%s/loop%d", e.frames[0].name, li.ordinal)
	if f != e.frames[0] {
		label = fmt.Sprintf("%s/%s.loop%d", e.frames[0].name, f.name, li.ordinal)
	}
	n := li.nback
	li.nback++
	suffix := ""
	if n > 0 {
		suffix = fmt.Sprintf("@%d", n)
	}
	env := e.cellEnv(f, li.pos, e.cur.clone())
	for _, inv := range lc.Invariants {
		n0 := len(e.obls)
		e.oblige("loop", label+".preserve."+inv.Label+suffix, e.evalBool(env, inv), li.pos)
		e.coverAntecedent(label+".cover.preserve."+inv.Label+suffix, env, inv)
		if len(e.obls) > n0 {
			e.obls[n0].Env = env
			e.obls[n0].ClauseText = inv.Text
		}
	}
	env.head = li.headSt
	for _, st := range lc.Steps {
		n0 := len(e.obls)
		e.oblige("loop", label+".step."+st.Label+suffix, e.evalBool(env, st), li.pos)
		e.coverAntecedent(label+".cover.step."+st.Label+suffix, env, st)
		if len(e.obls) > n0 {
			e.obls[n0].Env = env
			e.obls[n0].ClauseText = st.Text
		}
	}
	if lc.Decreases != nil && li.hasMeas {
		m := e.asInt(env, e.evalClauseVal(env, *lc.Decreases))
		e.oblige("loop", label+".decreases"+suffix, and(sle(bv64(0), li.measure), slt(m, li.measure)), li.pos)
	}
}

// dryRun executes the loop body once from an arbitrary state, only to find
// which cells and state variables the body may write.
var reFreshNum = regexp.MustCompile(`!(\d+)`)

// stableTerm: every generated name in t was created before the dry run
// started, i.e. t denotes the same value in every iteration.
func stableTerm(t T, n0 int) bool {
	for _, m := range reFreshNum.FindAllStringSubmatch(t.S, -1) {
		n, _ := strconv.Atoi(m[1])
		if n > n0 {
			return false
		}
	}
	return true
}

func (e *Enc) dryRun(f *frame, li *loopInfo, order []*ssa.BasicBlock, onlyC map[*ssa.Alloc]bool, onlyV map[string]bool) (map[*ssa.Alloc]bool, map[string]bool, map[string]bool, map[string][]T, map[string]bool, int) {
	nlines := len(e.lines)
	savedCur, savedReach := e.cur, e.reach
	savedIns := f.ins
	savedRets, savedDefers := len(f.rets), len(f.defers)
	savedWC, savedWV := e.writesC, e.writesV
	savedWF, savedWI, savedFI := e.writesFull, e.writesIdx, e.freshIdx
	n0 := e.nfresh
	savedSkip := f.skipEnter
	savedCalls, savedSafety := copyCounts(e.frames[0].ncall), copyCounts(e.frames[0].nsafety)
	savedAll := copyCounts(f.ncallAll)
	nerrs := len(e.errs)

	e.dry++
	e.loopDry++
	// facts about opaque spec terms emitted during the dry run are dropped with
	// its lines: they must be emitted again when the term is met for real
	savedFacts := make(map[string]bool, len(e.factsDone))
	for k, v := range e.factsDone {
		savedFacts[k] = v
	}
	npairs := len(e.seqPairs)
	nterms := len(e.seqTerms)
	e.writesC, e.writesV = map[*ssa.Alloc]bool{}, map[string]bool{}
	e.writesFull, e.writesIdx, e.freshIdx = map[string]bool{}, map[string][]T{}, map[string]bool{}
	st := e.cur.clone()
	for c, old := range st.cells {
		if onlyC != nil && !onlyC[c] {
			continue
		}
		switch old.(type) {
		case Fn, FnSel:
			continue // function-typed variables keep their (known) callee
		}
		if _, isSig := deref(c.Type()).Underlying().(*types.Signature); isSig {
			continue
		}
		st.cells[c] = e.freshVal(deref(c.Type()), "dry")
	}
	for k, t := range st.vars {
		if onlyV != nil && !onlyV[k] && !onlyV["*"] {
			continue
		}
		if t.Sort != "" {
			st.vars[k] = e.freshT("dry", t.Sort)
		}
	}
	if onlyV == nil || onlyV["*"] {
		st.vars["*havoc*"] = T{"dry", ""}
	} else {
		for k := range onlyV {
			if _, ok := st.vars[k]; !ok {
				if srt, ok2 := e.keySorts[k]; ok2 {
					st.vars[k] = e.freshT("dry", srt)
				}
			}
		}
	}
	f.ins = map[*ssa.BasicBlock][]edgeIn{li.head: {{cond: tTrue, st: st}}}
	f.skipEnter = li.head
	e.reach = tTrue
	e.runBlocks(f, order, li.blocks)

	wc, wv := e.writesC, e.writesV
	wfull, widx, wfresh := e.writesFull, e.writesIdx, e.freshIdx
	e.dry--
	e.loopDry--
	e.seqPairs = e.seqPairs[:npairs]
	e.seqTerms = e.seqTerms[:nterms]
	e.lines = e.lines[:nlines]
	e.factsDone = savedFacts
	e.cur, e.reach = savedCur, savedReach
	f.ins = savedIns
	f.rets, f.defers = f.rets[:savedRets], f.defers[:savedDefers]
	f.skipEnter = savedSkip
	e.frames[0].ncall, e.frames[0].nsafety = savedCalls, savedSafety
	f.ncallAll = savedAll
	e.errs = e.errs[:nerrs]
	e.writesC, e.writesV = savedWC, savedWV
	e.writesFull, e.writesIdx, e.freshIdx = savedWF, savedWI, savedFI
	if savedWC != nil {
		for c := range wc {
			savedWC[c] = true
		}
		for k := range wv {
			savedWV[k] = true
			if wfull[k] {
				savedWF[k] = true
			}
			// indices of an inner loop's writes are not stable for the outer one in general
			for _, idx := range widx[k] {
				savedWI[k] = append(savedWI[k], idx)
			}
		}
		for k := range wfresh {
			savedFI[k] = true
		}
	}
	return wc, wv, wfull, widx, wfresh, n0
}

func copyCounts(m map[string]int) map[string]int {
	n := make(map[string]int, len(m))
	for k, v := range m {
		n[k] = v
	}
	return n
}

// unrollLoop executes a loop whose trip count is a small constant ("loop k
// unroll n") n+1 times instead of cutting it with an invariant: n full
// iterations and one more evaluation of the loop head, which must leave the
// loop. The unwinding obligation <loop>.unwind states that no back edge is
// taken in that last round, so the result is complete, not bounded. Call-site
// and safety ordinals are those of one iteration (the k-th call site keeps
// its name in every round; repeated obligation names get a ~n suffix).
func (e *Enc) unrollLoop(f *frame, li *loopInfo, order []*ssa.BasicBlock, ins []edgeIn) {
	label := fmt.Sprintf("%s/loop%d", e.frames[0].name, li.ordinal)
	if f != e.frames[0] {
		label = fmt.Sprintf("%s/%s.loop%d", e.frames[0].name, f.name, li.ordinal)
	}
	// a value computed inside the loop and used after it would be read from
	// the last round instead of the round that left the loop
	for b := range li.blocks {
		for _, in := range b.Instrs {
			v, ok := in.(ssa.Value)
			if !ok {
				continue
			}
			if _, isAlloc := in.(*ssa.Alloc); isAlloc {
				continue
			}
			if refs := v.Referrers(); refs != nil {
				for _, r := range *refs {
					if !li.blocks[r.Block()] {
						e.errs = append(e.errs, fmt.Sprintf("%s: cannot unroll: %s is computed in the loop and used after it", label, v.Name()))
						return
					}
				}
			}
		}
	}
	n := li.contract.Unroll
	top := e.frames[0]
	calls0, safety0, all0 := copyCounts(top.ncall), copyCounts(top.nsafety), copyCounts(f.ncallAll)
	var calls1, safety1, all1 map[string]int
	li.unrolling = true
	cur := ins
	for round := 0; round <= n && len(cur) > 0; round++ {
		f.ins[li.head] = cur
		li.collect = nil
		top.ncall, top.nsafety, f.ncallAll = copyCounts(calls0), copyCounts(safety0), copyCounts(all0)
		li.round = round
		e.runBlocks(f, order, li.blocks)
		if round == 0 {
			calls1, safety1, all1 = copyCounts(top.ncall), copyCounts(top.nsafety), copyCounts(f.ncallAll)
		}
		cur = li.collect
	}
	li.unrolling = false
	li.collect = nil
	if calls1 != nil {
		top.ncall, top.nsafety, f.ncallAll = calls1, safety1, all1
	}
	var conds []T
	for _, in := range cur {
		conds = append(conds, in.cond)
	}
	saved := e.reach
	e.reach = tTrue
	goal := tTrue
	if len(conds) > 0 {
		goal = not(or(conds...))
	}
	e.oblige("loop", label+".unwind", goal, li.pos)
	e.reach = saved
	e.unrolled = append(e.unrolled, fmt.Sprintf("%s (%d iterations, unwinding assertion %s.unwind)", label, n, label))
}

// unrollHead: the invariants of an unrolled loop are checked at the head of
// every round and then used (stepping stones: each follows from the one of the
// round before and one execution of the body).
func (e *Enc) unrollHead(f *frame, li *loopInfo) {
	lc := li.contract
	if lc == nil || len(lc.Invariants) == 0 {
		return
	}
	label := fmt.Sprintf("%s/loop%d", e.frames[0].name, li.ordinal)
	if f != e.frames[0] {
		label = fmt.Sprintf("%s/%s.loop%d", e.frames[0].name, f.name, li.ordinal)
	}
	env := e.cellEnv(f, li.pos, e.cur.clone())
	for _, inv := range lc.Invariants {
		g := e.evalBool(env, inv)
		n := len(e.obls)
		e.oblige("loop", fmt.Sprintf("%s.round%d.%s", label, li.round, inv.Label), g, li.pos)
		if len(e.obls) > n {
			e.obls[n].Env = env
			e.obls[n].ClauseText = inv.Text
		}
		e.assume(g)
	}
}
