package main

import (
	"fmt"
	"go/ast"
	"go/parser"
	"os"
	"path/filepath"
	"regexp"
	"sort"
	"strconv"
	"strings"
)

// Clause is one requires/ensures/invariant line.
type Clause struct {
	Label string
	Text  string
	Expr  ast.Expr
	File  string
	Line  int
}

type LoopContract struct {
	Ordinal    int
	Invariants []Clause
	Decreases  *Clause
	Unroll     int // > 0: bounded unrolling instead of an invariant (labelled bounded)
	Heads      []LoopGhost // "loop k ghost v := e": ghost snapshot taken at the head of every iteration
	Steps      []Clause    // "loop k step label: e": holds at every back edge (one whole iteration after the head snapshot)
	Splits     []Clause    // "loop k split e": proof hint, a case distinction (at the loop head) offered to the cube refinement; no logical content
}

type LoopGhost struct {
	Var    string
	Clause Clause
}

type GhostUpdate struct {
	Var  string
	Expr ast.Expr
	Text string
}

type Contract struct {
	Key      string // canonical function key within its package, e.g. "(*NativeIterator).Merge"
	Pkg      string // package path
	Requires []Clause
	Assumes  []Clause // assumed when the body is verified, not checked at call sites (environment assumptions, listed in the evidence)
	Ensures  []Clause
	Exits    []Clause // like ensures, but over the function's locals at the return; never used at call sites
	Lets     []Clause // Label = name
	Modifies []string
	ModAll   bool
	ModHeap  bool // "modifies heap": everything an unknown callee could write (heap, memory, globals), but no ghost state
	NoSwallow bool // every error returned by a callee must make this function return a non-nil error
	NoSwallowExcept []string // callees whose errors are handled by design
	NoPanic  bool
	LockCheck bool // check the lock discipline in this function (lockset.go)
	Goroutine bool // the function is the body of a goroutine: it starts with no lock held
	Inline   bool
	Pure     bool // callee has no side effects at all (modifies nothing)
	Reads    []string // ghost variables a `function` result additionally depends on
	Function bool // pure and deterministic: the result is an (uninterpreted) function of the scalar arguments
	Trusted  bool // contract is assumed, body not verified (external / LMDB / stdlib)
	Loops    map[int]*LoopContract
	Params   []string // for extern contracts: parameter names
	Results  []string
	Extern   bool
	File     string
	Line     int
	CallAsserts []CallAssert // assertions at named call sites inside this function
	SendAsserts []Clause     // "at_send assert label: e": holds at every channel send in this function
	MakeAsserts []Clause     // "at_make assert label: e": holds at every make([]T, len, cap) in this function (names: makeLen, makeCap)
	Ghost    []GhostUpdate // ghost updates performed at calls to this function (after the call)
	Raw      []string
}

// CallAssert: "at_call <callee>#<n> assert label: expr" — checked in the
// caller's state immediately before the n-th call of <callee> (display name).
type CallAssert struct {
	Callee string
	N      int
	Clause Clause
	After  bool   // "after_call ... ghost x := expr": ghost update in the caller's state after the call
	Var    string // ghost variable for After
}

type SpecFunc struct {
	Name   string
	Params []string
	Body   ast.Expr
	Text   string
	Fact   ast.Expr // "specfact name(x): e": a consequence of the definition, assumed wherever the function is used opaquely
	Opaque bool // relational mode may treat it as an uninterpreted function of its slice argument
}

type LemmaStep struct {
	Kind   string // var | call | assume | prove
	Names  []string
	Type   string // var
	Callee string // call
	Clause Clause // assume / prove / call (arguments as a call expression)
}

type Lemma struct {
	Name  string
	Steps []LemmaStep
	Pkg   string
	File  string
	Line  int
}

type ContractSet struct {
	GhostNames map[string]bool // every ghost variable named in a contract or spec file
	Guarded   map[string]string // heap key prefix of a field -> lock key of the mutex that protects it
	ScratchGhost map[string]bool // loop head snapshots (and their prev_ copies): proof-local, outside every frame
	Stable    []string // heap key prefixes changed only through contracts that name them (unknown callees cannot reach them)
	Immutable []string // heap key prefixes "H|<pkgname>.<Type>|<field>" never written after construction
	ByKey  map[string]*Contract // "pkgpath|key"
	Specs  map[string]*SpecFunc
	Lemmas []*Lemma
	Files  []string
}

var reImplies = regexp.MustCompile(`==>`)

// rewriteImplies turns top-level "A ==> B" (right associative) into implies(A, B).
func rewriteImplies(s string) string {
	depth := 0
	for i := 0; i+2 < len(s); i++ {
		switch s[i] {
		case '(', '[', '{':
			depth++
		case ')', ']', '}':
			depth--
		case '"':
			for i++; i < len(s) && s[i] != '"'; i++ {
			}
		}
		if depth == 0 && strings.HasPrefix(s[i:], "==>") {
			return "implies(" + rewriteNested(s[:i]) + ", " + rewriteImplies(s[i+3:]) + ")"
		}
	}
	return rewriteNested(s)
}

// rewriteNested handles ==> inside parenthesised sub-expressions.
func rewriteNested(s string) string {
	if !strings.Contains(s, "==>") {
		return s
	}
	var b strings.Builder
	i := 0
	for i < len(s) {
		if s[i] == '(' {
			d := 0
			j := i
			for ; j < len(s); j++ {
				if s[j] == '(' {
					d++
				} else if s[j] == ')' {
					d--
					if d == 0 {
						break
					}
				}
			}
			if j >= len(s) {
				b.WriteString(s[i:])
				break
			}
			inner := s[i+1 : j]
			// split on top-level commas, rewrite each part
			parts := splitTop(inner, ',')
			for k, p := range parts {
				parts[k] = rewriteImplies(p)
			}
			b.WriteString("(" + strings.Join(parts, ",") + ")")
			i = j + 1
			continue
		}
		b.WriteByte(s[i])
		i++
	}
	return b.String()
}

func splitTop(s string, sep byte) []string {
	var out []string
	d := 0
	last := 0
	for i := 0; i < len(s); i++ {
		switch s[i] {
		case '(', '[', '{':
			d++
		case ')', ']', '}':
			d--
		case '"':
			for i++; i < len(s) && s[i] != '"'; i++ {
			}
		}
		if d == 0 && i < len(s) && s[i] == sep {
			out = append(out, s[last:i])
			last = i + 1
		}
	}
	out = append(out, s[last:])
	return out
}

func parseClause(text, file string, line int) (Clause, error) {
	c := Clause{File: file, Line: line}
	t := strings.TrimSpace(text)
	// optional label "name: expr" (label is an identifier possibly with dots/underscores)
	if m := regexp.MustCompile(`^([A-Za-z_][A-Za-z0-9_.]*!?)\s*:\s+(.*)$`).FindStringSubmatch(t); m != nil {
		c.Label = m[1]
		t = m[2]
	}
	c.Text = t
	ex, err := parser.ParseExpr(rewriteImplies(t))
	if err != nil {
		return c, fmt.Errorf("%s:%d: cannot parse %q: %v", file, line, t, err)
	}
	c.Expr = ex
	return c, nil
}

// LoadContracts reads all contract files: zz_contracts_verif.go under repoDir
// and *.contracts under specDir (assumed contracts of dependencies).
func LoadContracts(repoDir, specDir string) (*ContractSet, error) {
	cs := &ContractSet{ByKey: map[string]*Contract{}, Specs: map[string]*SpecFunc{}}
	var files []string
	filepath.Walk(repoDir, func(p string, info os.FileInfo, err error) error {
		if err != nil {
			return nil
		}
		if info.IsDir() && (info.Name() == ".git" || info.Name() == "docs") {
			return filepath.SkipDir
		}
		if info.Name() == "zz_contracts_verif.go" {
			files = append(files, p)
		}
		return nil
	})
	ext, _ := filepath.Glob(filepath.Join(specDir, "*.contracts"))
	sort.Strings(files)
	sort.Strings(ext)
	for _, f := range append(files, ext...) {
		if err := cs.loadFile(f, repoDir); err != nil {
			return nil, err
		}
		cs.Files = append(cs.Files, f)
	}
	return cs, nil
}

var reHeaderFunc = regexp.MustCompile(`^func\s+(\(\s*\*?\s*[A-Za-z_][A-Za-z0-9_\[\]]*\s*\)\s*)?([A-Za-z_][A-Za-z0-9_$]*)\s*$`)
var reHeaderFuncRecvNamed = regexp.MustCompile(`^func\s+\(\s*[A-Za-z_][A-Za-z0-9_]*\s+(\*?)\s*([A-Za-z_][A-Za-z0-9_]*)\s*\)\s*([A-Za-z_][A-Za-z0-9_$]*)\s*$`)

func (cs *ContractSet) loadFile(path, repoDir string) error {
	data, err := os.ReadFile(path)
	if err != nil {
		return err
	}
	if cs.GhostNames == nil {
		cs.GhostNames = map[string]bool{}
	}
	for _, m := range regexp.MustCompile(`ghost_(\w+)`).FindAllStringSubmatch(string(data), -1) {
		cs.GhostNames[m[1]] = true
	}
	for _, m := range regexp.MustCompile(`(?m)^\s*(?://@)?\s*ghost\s+(\w+)\s*:=`).FindAllStringSubmatch(string(data), -1) {
		cs.GhostNames[m[1]] = true
	}
	pkgPath := ""
	isRepo := strings.HasPrefix(path, repoDir+"/")
	if isRepo {
		rel, _ := filepath.Rel(repoDir, filepath.Dir(path))
		pkgPath = repoModule
		if rel != "." {
			pkgPath += "/" + rel
		}
	}
	var cur *Contract
	var curLemma *Lemma
	lines := strings.Split(string(data), "\n")
	for i, ln := range lines {
		t := strings.TrimSpace(ln)
		var body string
		if isRepo {
			if !strings.HasPrefix(t, "//@") {
				continue
			}
			body = strings.TrimSpace(strings.TrimPrefix(t, "//@"))
		} else {
			if strings.HasPrefix(t, "#") || strings.HasPrefix(t, "//") && !strings.HasPrefix(t, "//@") {
				continue
			}
			body = strings.TrimSpace(strings.TrimPrefix(t, "//@"))
		}
		if body == "" {
			continue
		}
		word, rest := body, ""
		if j := strings.IndexAny(body, " \t"); j >= 0 {
			word, rest = body[:j], strings.TrimSpace(body[j+1:])
		}
		lineNo := i + 1
		switch word {
		case "package":
			pkgPath = rest
			cur, curLemma = nil, nil
		case "func":
			curLemma = nil
			key := ""
			if m := reHeaderFuncRecvNamed.FindStringSubmatch(body); m != nil {
				key = "(" + m[1] + m[2] + ")." + m[3]
			} else if m := reHeaderFunc.FindStringSubmatch(body); m != nil {
				recv := strings.ReplaceAll(strings.TrimSpace(m[1]), " ", "")
				if recv != "" {
					key = recv + "." + m[2]
				} else {
					key = m[2]
				}
			} else {
				return fmt.Errorf("%s:%d: bad func header %q", path, lineNo, body)
			}
			cur = &Contract{Key: key, Pkg: pkgPath, Loops: map[int]*LoopContract{}, File: path, Line: lineNo}
			if _, dup := cs.ByKey[pkgPath+"|"+key]; dup {
				return fmt.Errorf("%s:%d: duplicate contract for %s", path, lineNo, key)
			}
			cs.ByKey[pkgPath+"|"+key] = cur
		case "extern":
			// extern <key> (p1, p2) (r1, r2)
			curLemma = nil
			m := regexp.MustCompile(`^(\(\*?\w+\)\.\w+|[\w.$]+)\s*\(([^)]*)\)\s*(?:\(([^)]*)\))?\s*$`).FindStringSubmatch(rest)
			if m == nil {
				return fmt.Errorf("%s:%d: bad extern header %q", path, lineNo, body)
			}
			cur = &Contract{Key: m[1], Pkg: pkgPath, Loops: map[int]*LoopContract{}, File: path, Line: lineNo, Extern: true, Trusted: true}
			cur.Params = fieldsComma(m[2])
			cur.Results = fieldsComma(m[3])
			cs.ByKey[pkgPath+"|"+m[1]] = cur
		case "spec":
			// spec [opaque] name(a, b) = expr
			opaque := false
			if strings.HasPrefix(rest, "opaque ") {
				opaque = true
				rest = strings.TrimSpace(strings.TrimPrefix(rest, "opaque "))
			}
			m := regexp.MustCompile(`^([A-Za-z_][A-Za-z0-9_]*)\s*\(([^)]*)\)\s*=\s*(.*)$`).FindStringSubmatch(rest)
			if m == nil {
				return fmt.Errorf("%s:%d: bad spec %q", path, lineNo, body)
			}
			ex, err := parser.ParseExpr(rewriteImplies(m[3]))
			if err != nil {
				return fmt.Errorf("%s:%d: spec %s: %v", path, lineNo, m[1], err)
			}
			cs.Specs[m[1]] = &SpecFunc{Name: m[1], Params: fieldsComma(m[2]), Body: ex, Text: m[3], Opaque: opaque}
		case "stable":
			cur, curLemma = nil, nil
			for _, it := range fieldsComma(rest) {
				i := strings.Index(it, ".")
				if i < 0 {
					return fmt.Errorf("%s:%d: stable Type.field", path, lineNo)
				}
				pn := pkgPath
				if j := strings.LastIndex(pn, "/"); j >= 0 {
					pn = pn[j+1:]
				}
				cs.Stable = append(cs.Stable, "H|"+pn+"."+it[:i]+"|"+it[i+1:])
			}
		case "guarded":
			// guarded Type.f, Type.g by Type.mu
			cur, curLemma = nil, nil
			m := regexp.MustCompile(`^(.*)\s+by\s+(\w+)\.([\w.]+)$`).FindStringSubmatch(rest)
			if m == nil {
				return fmt.Errorf("%s:%d: guarded Type.field, ... by Type.mutex", path, lineNo)
			}
			pn := pkgPath
			if j := strings.LastIndex(pn, "/"); j >= 0 {
				pn = pn[j+1:]
			}
			if cs.Guarded == nil {
				cs.Guarded = map[string]string{}
			}
			for _, it := range fieldsComma(m[1]) {
				if strings.HasPrefix(it, "global:") {
					// guarded global:v by global.mu  (package-level variables)
					cs.Guarded["V|"+pn+"."+strings.TrimPrefix(it, "global:")] = "L|G|" + pn + "." + m[3]
					continue
				}
				i := strings.Index(it, ".")
				if i < 0 {
					return fmt.Errorf("%s:%d: guarded Type.field", path, lineNo)
				}
				cs.Guarded["H|"+pn+"."+it[:i]+"|"+it[i+1:]] = "L|" + pn + "." + m[2] + "|" + m[3]
			}
		case "immutable":
			// immutable Type.field: set by the constructor only (checked), so no call changes it
			cur, curLemma = nil, nil
			for _, it := range fieldsComma(rest) {
				i := strings.Index(it, ".")
				if i < 0 {
					return fmt.Errorf("%s:%d: immutable Type.field", path, lineNo)
				}
				pn := pkgPath
				if j := strings.LastIndex(pn, "/"); j >= 0 {
					pn = pn[j+1:]
				}
				cs.Immutable = append(cs.Immutable, "H|"+pn+"."+it[:i]+"|"+it[i+1:])
			}
		case "iface":
			// iface <pkgname.Type> <Method>(params) (results): contract attached to an interface method
			curLemma = nil
			m := regexp.MustCompile(`^(\S+)\s+(\w+)\s*\(([^)]*)\)\s*(?:\(([^)]*)\))?\s*$`).FindStringSubmatch(rest)
			if m == nil {
				return fmt.Errorf("%s:%d: bad iface header %q", path, lineNo, body)
			}
			key := "type " + m[1] + " method " + m[2]
			cur = &Contract{Key: key, Pkg: pkgPath, Loops: map[int]*LoopContract{}, File: path, Line: lineNo, Extern: true, Trusted: true}
			cur.Params = fieldsComma(m[3])
			cur.Results = fieldsComma(m[4])
			cs.ByKey["|"+key] = cur
		case "functype":
			// functype <pkgname.Type>(params) (results): contract assumed for every
			// call through a value of this named function type (callbacks)
			curLemma = nil
			m := regexp.MustCompile(`^(\S+?)\s*\(([^)]*)\)\s*(?:\(([^)]*)\))?\s*$`).FindStringSubmatch(rest)
			if m == nil {
				return fmt.Errorf("%s:%d: bad functype header %q", path, lineNo, body)
			}
			key := "functype " + m[1]
			cur = &Contract{Key: key, Pkg: pkgPath, Loops: map[int]*LoopContract{}, File: path, Line: lineNo, Extern: true, Trusted: true}
			cur.Params = fieldsComma(m[2])
			cur.Results = fieldsComma(m[3])
			cs.ByKey["|"+key] = cur
		case "specfact":
			// specfact name(a, b): expr
			m := regexp.MustCompile(`^([A-Za-z_][A-Za-z0-9_]*)\s*\(([^)]*)\)\s*:\s*(.*)$`).FindStringSubmatch(rest)
			if m == nil {
				return fmt.Errorf("%s:%d: bad specfact %q", path, lineNo, body)
			}
			ex, err := parser.ParseExpr(rewriteImplies(m[3]))
			if err != nil {
				return fmt.Errorf("%s:%d: specfact %s: %v", path, lineNo, m[1], err)
			}
			if sf := cs.Specs[m[1]]; sf != nil {
				sf.Fact = ex
			} else {
				return fmt.Errorf("%s:%d: specfact for unknown spec %s", path, lineNo, m[1])
			}
		case "lemma":
			cur = nil
			curLemma = &Lemma{Name: rest, Pkg: pkgPath, File: path, Line: lineNo}
			cs.Lemmas = append(cs.Lemmas, curLemma)
		default:
			if curLemma != nil {
				switch word {
				case "var":
					f := strings.Fields(rest)
					if len(f) < 2 {
						return fmt.Errorf("%s:%d: var name type", path, lineNo)
					}
					curLemma.Steps = append(curLemma.Steps, LemmaStep{Kind: "var", Names: []string{f[0]}, Type: strings.Join(f[1:], " ")})
				case "call":
					// call r1, r2 = f(args)
					m := regexp.MustCompile(`^([A-Za-z_0-9, ]+?)\s*=\s*(.*)$`).FindStringSubmatch(rest)
					if m == nil {
						return fmt.Errorf("%s:%d: call r1, r2 = f(args)", path, lineNo)
					}
					c, err := parseClause(m[2], path, lineNo)
					if err != nil {
						return err
					}
					curLemma.Steps = append(curLemma.Steps, LemmaStep{Kind: "call", Names: fieldsComma(m[1]), Clause: c})
				case "assume", "prove":
					c, err := parseClause(rest, path, lineNo)
					if err != nil {
						return err
					}
					curLemma.Steps = append(curLemma.Steps, LemmaStep{Kind: word, Clause: c})
				default:
					return fmt.Errorf("%s:%d: unknown lemma clause %q", path, lineNo, word)
				}
				continue
			}
			if cur == nil {
				return fmt.Errorf("%s:%d: clause outside of a contract: %q", path, lineNo, body)
			}
			cur.Raw = append(cur.Raw, body)
			switch word {
			case "assumes":
				c, err := parseClause(rest, path, lineNo)
				if err != nil {
					return err
				}
				if c.Label == "" {
					c.Label = fmt.Sprintf("a%d", len(cur.Assumes))
				}
				cur.Assumes = append(cur.Assumes, c)
			case "exit":
				c, err := parseClause(rest, path, lineNo)
				if err != nil {
					return err
				}
				if c.Label == "" {
					c.Label = fmt.Sprintf("x%d", len(cur.Exits))
				}
				cur.Exits = append(cur.Exits, c)
			case "requires", "ensures":
				c, err := parseClause(rest, path, lineNo)
				if err != nil {
					return err
				}
				if word == "requires" {
					if c.Label == "" {
						c.Label = fmt.Sprintf("r%d", len(cur.Requires))
					}
					cur.Requires = append(cur.Requires, c)
				} else {
					if c.Label == "" {
						c.Label = fmt.Sprintf("e%d", len(cur.Ensures))
					}
					cur.Ensures = append(cur.Ensures, c)
				}
			case "let":
				m := regexp.MustCompile(`^([A-Za-z_][A-Za-z0-9_]*)\s*=\s*(.*)$`).FindStringSubmatch(rest)
				if m == nil {
					return fmt.Errorf("%s:%d: bad let", path, lineNo)
				}
				c, err := parseClause(m[2], path, lineNo)
				if err != nil {
					return err
				}
				c.Label = m[1]
				cur.Lets = append(cur.Lets, c)
			case "modifies":
				for _, m := range fieldsComma(rest) {
					if m == "*" {
						cur.ModAll = true
					} else if m == "heap" {
						cur.ModHeap = true
					} else {
						cur.Modifies = append(cur.Modifies, m)
					}
				}
			case "at_call":
				m := regexp.MustCompile(`^(\S+)#(\d+)\s+assert\s+(.*)$`).FindStringSubmatch(rest)
				if m == nil {
					return fmt.Errorf("%s:%d: at_call <callee>#<n> assert label: expr", path, lineNo)
				}
				c, err := parseClause(m[3], path, lineNo)
				if err != nil {
					return err
				}
				n, _ := strconv.Atoi(m[2])
				cur.CallAsserts = append(cur.CallAsserts, CallAssert{Callee: m[1], N: n, Clause: c})
			case "at_make":
				m := regexp.MustCompile(`^assert\s+(.*)$`).FindStringSubmatch(rest)
				if m == nil {
					return fmt.Errorf("%s:%d: at_make assert label: expr", path, lineNo)
				}
				c, err := parseClause(m[1], path, lineNo)
				if err != nil {
					return err
				}
				cur.MakeAsserts = append(cur.MakeAsserts, c)
			case "at_send":
				m := regexp.MustCompile(`^assert\s+(.*)$`).FindStringSubmatch(rest)
				if m == nil {
					return fmt.Errorf("%s:%d: at_send assert label: expr", path, lineNo)
				}
				c, err := parseClause(m[1], path, lineNo)
				if err != nil {
					return err
				}
				cur.SendAsserts = append(cur.SendAsserts, c)
			case "after_call":
				m := regexp.MustCompile(`^(\S+)#(\d+)\s+ghost\s+(\w+)\s*:=\s*(.*)$`).FindStringSubmatch(rest)
				if m == nil {
					return fmt.Errorf("%s:%d: after_call <callee>#<n> ghost x := expr", path, lineNo)
				}
				c, err := parseClause(m[4], path, lineNo)
				if err != nil {
					return err
				}
				n, _ := strconv.Atoi(m[2])
				cur.CallAsserts = append(cur.CallAsserts, CallAssert{Callee: m[1], N: n, Clause: c, After: true, Var: m[3]})
				cs.GhostNames[m[3]] = true
			case "lockcheck":
				cur.LockCheck = true
			case "goroutine":
				cur.Goroutine = true
			case "noswallow":
				cur.NoSwallow = true
				if strings.HasPrefix(rest, "except ") {
					cur.NoSwallowExcept = append(cur.NoSwallowExcept, fieldsComma(strings.TrimPrefix(rest, "except "))...)
				}
			case "nopanic":
				cur.NoPanic = true
			case "inline":
				cur.Inline = true
			case "pure":
				cur.Pure = true
			case "function":
				cur.Pure = true
				cur.Function = true
			case "reads":
				for _, g := range fieldsComma(rest) {
					cur.Reads = append(cur.Reads, strings.TrimPrefix(g, "ghost_"))
				}
			case "trusted":
				cur.Trusted = true
			case "ghost":
				m := regexp.MustCompile(`^([A-Za-z_][A-Za-z0-9_.]*)\s*:=\s*(.*)$`).FindStringSubmatch(rest)
				if m == nil {
					return fmt.Errorf("%s:%d: bad ghost update", path, lineNo)
				}
				ex, err := parser.ParseExpr(rewriteImplies(m[2]))
				if err != nil {
					return fmt.Errorf("%s:%d: %v", path, lineNo, err)
				}
				cur.Ghost = append(cur.Ghost, GhostUpdate{Var: m[1], Expr: ex, Text: m[2]})
			case "loop":
				m := regexp.MustCompile(`^(\d+)\s+(invariant|decreases|unroll|ghost|step|split)\s+(.*)$`).FindStringSubmatch(rest)
				if m == nil {
					return fmt.Errorf("%s:%d: bad loop clause %q", path, lineNo, rest)
				}
				k, _ := strconv.Atoi(m[1])
				lc := cur.Loops[k]
				if lc == nil {
					lc = &LoopContract{Ordinal: k}
					cur.Loops[k] = lc
				}
				if m[2] == "unroll" {
					n, err := strconv.Atoi(strings.TrimSpace(m[3]))
					if err != nil {
						return fmt.Errorf("%s:%d: bad unroll count", path, lineNo)
					}
					lc.Unroll = n
					continue
				}
				if m[2] == "ghost" {
					g := regexp.MustCompile(`^(\w+)\s*:=\s*(.*)$`).FindStringSubmatch(m[3])
					if g == nil {
						return fmt.Errorf("%s:%d: loop k ghost x := expr", path, lineNo)
					}
					c, err := parseClause(g[2], path, lineNo)
					if err != nil {
						return err
					}
					lc.Heads = append(lc.Heads, LoopGhost{Var: g[1], Clause: c})
					cs.GhostNames[g[1]] = true
					cs.GhostNames["prev_"+g[1]] = true
					if cs.ScratchGhost == nil {
						cs.ScratchGhost = map[string]bool{}
					}
					cs.ScratchGhost[g[1]] = true
					cs.ScratchGhost["prev_"+g[1]] = true
					continue
				}
				c, err := parseClause(m[3], path, lineNo)
				if err != nil {
					return err
				}
				if m[2] == "split" {
					lc.Splits = append(lc.Splits, c)
					continue
				}
				if m[2] == "step" {
					if c.Label == "" {
						c.Label = fmt.Sprintf("s%d", len(lc.Steps))
					}
					lc.Steps = append(lc.Steps, c)
					continue
				}
				if m[2] == "invariant" {
					if c.Label == "" {
						c.Label = fmt.Sprintf("i%d", len(lc.Invariants))
					}
					lc.Invariants = append(lc.Invariants, c)
				} else {
					lc.Decreases = &c
				}
			default:
				return fmt.Errorf("%s:%d: unknown clause %q", path, lineNo, word)
			}
		}
	}
	return nil
}

func fieldsComma(s string) []string {
	var out []string
	for _, p := range strings.Split(s, ",") {
		p = strings.TrimSpace(p)
		if p != "" {
			out = append(out, p)
		}
	}
	return out
}
