package main

import (
	"fmt"
	"go/ast"
	"go/types"
	"sort"
	"strings"

	"golang.org/x/tools/go/ssa"
)

// Relational obligations over k copies of the code-derived transition relation
// of (*NativeIterator).Merge (DESIGN 6.3). Nothing here transcribes the merge
// rule: each "run" symbolically executes the SSA of Merge from /repo (with
// addHeader and header.Parse through their verified contracts), and the
// obligations compare the logical views of the results of different run
// orders.

type relEntry struct {
	name    string
	value   Sl
	ts      T // BV64
	flags   T // BV32
	fmtVer  T // BV32
	defTS   T // BV64
	cutoff  T // BV64
	present T // Bool: false = "no entry" (the run is skipped)
}

type relView struct {
	present T
	ts      T
	del     T
	seq     string // sequence id (BSeq term) of the application value
}

type relCtx struct {
	e     *Enc
	merge *ssa.Function
	it    Ptr
	itT   types.Type
	env   *Env
	name  string
}

func (rc *relCtx) setField(field string, v Val) {
	st := rc.itT.Underlying().(*types.Struct)
	for i := 0; i < st.NumFields(); i++ {
		if st.Field(i).Name() == field {
			p := rc.it
			p.Path = []int{i}
			p.Elem = st.Field(i).Type()
			rc.e.storeTo(p, st.Field(i).Type(), v)
			return
		}
	}
	panic("no field " + field)
}

func (rc *relCtx) getField(field string) Val {
	st := rc.itT.Underlying().(*types.Struct)
	for i := 0; i < st.NumFields(); i++ {
		if st.Field(i).Name() == field {
			p := rc.it
			p.Path = []int{i}
			p.Elem = st.Field(i).Type()
			return rc.e.load(p, st.Field(i).Type())
		}
	}
	panic("no field " + field)
}

// freshBytes introduces a symbolic input byte slice living in pre-existing memory.
func (rc *relCtx) freshBytes(name string) Sl {
	e := rc.e
	v := e.freshVal(types.NewSlice(types.Typ[types.Uint8]), "in_"+name).(Sl)
	e.assume(and(ult(v.Arr, T{e.prefix + "allocArr0", SBV64}), or(eq(v.Arr, bv64(0)), ule(bv64(firstDynArr), v.Arr))))
	return v
}

func (rc *relCtx) newEntry(name string) relEntry {
	e := rc.e
	en := relEntry{name: name, value: rc.freshBytes(name + "_value"),
		ts: e.freshT("in_"+name+"_ts", SBV64), flags: e.freshT("in_"+name+"_flags", SBV32), fmtVer: e.freshT("in_"+name+"_fmt", SBV32),
		defTS: e.freshT("in_"+name+"_defTS", SBV64), cutoff: e.freshT("in_"+name+"_cutoff", SBV64), present: tTrue}
	// NewNativeIterator accepts formatVersion 1..; the current one is 3
	e.assume(and(ule(bv(1, 32), en.fmtVer), ule(en.fmtVer, bv(3, 32))))
	bs := types.NewSlice(types.Typ[types.Uint8])
	rc.env.names[name+"_value"] = TV{V: en.value, Ty: bs}
	rc.env.names[name+"_ts"] = TV{V: Sc{en.ts}, Ty: types.Typ[types.Uint64]}
	rc.env.names[name+"_flags"] = TV{V: Sc{en.flags}, Ty: types.Typ[types.Uint32]}
	rc.env.names[name+"_fmt"] = TV{V: Sc{en.fmtVer}, Ty: types.Typ[types.Uint32]}
	rc.env.names[name+"_defTS"] = TV{V: Sc{en.defTS}, Ty: types.Typ[types.Uint64]}
	rc.env.names[name+"_cutoff"] = TV{V: Sc{en.cutoff}, Ty: types.Typ[types.Uint64]}
	return en
}

// run executes Merge(oldval) with entry en loaded into the iterator and
// returns the value stored afterwards (read back as LMDB would return it).
func (rc *relCtx) run(en relEntry, oldval Sl, tag string) Sl {
	e := rc.e
	if en.present.S == "false" {
		return oldval
	}
	before := e.cur.clone()
	savedReach := e.reach
	e.reach = e.def("run_"+tag, and(savedReach, en.present))
	kvT := rc.fieldType("curKV")
	kv := St{F: []Val{
		Sl{Arr: bv64(0), Off: bv64(0), Len: bv64(0), Cap: bv64(0), Elem: types.Typ[types.Uint8]}, // Key (irrelevant to Merge)
		en.value, Sc{en.ts}, Sc{en.flags}}, Typ: kvT.Underlying()}
	rc.setField("curKV", kv)
	rc.setField("FormatVersion", Sc{en.fmtVer})
	rc.setField("DefaultTimestampNano", Sc{en.defTS})
	rc.setField("DeletedCutoff", Sc{en.cutoff})
	// preconditions of Merge (proved at its call sites / object invariant)
	buf := rc.getField("buf").(Sl)
	e.assume(and(or(not(eq(buf.Arr, oldval.Arr)), eq(buf.Arr, bv64(0))), or(not(eq(buf.Arr, en.value.Arr)), eq(buf.Arr, bv64(0)))))
	e.noObl++
	_, rets := e.runBody(rc.merge, []Val{rc.it, oldval}, nil, false, nil)
	e.noObl--
	res := rets[0].(Sl)
	errv := rets[1].(Ifc)
	// stored values are well formed, so Merge does not fail (checked as an obligation)
	e.oblige("rel", rc.name+"/"+tag+".no_error", eq(errv.Id, bv64(0)), 0)
	e.assume(eq(errv.Id, bv64(0)))
	stored := rc.readBack(res, tag)
	after := e.cur
	// when the entry is absent the run did not happen
	e.reach = savedReach
	if en.present.S != "true" {
		_, st := e.mergeStates([]edgeIn{{cond: and(savedReach, en.present), st: after}, {cond: and(savedReach, not(en.present)), st: before}}, "run")
		e.cur = st
		return e.iteVal(en.present, stored, oldval).(Sl)
	}
	return stored
}

func (rc *relCtx) fieldType(field string) types.Type {
	st := rc.itT.Underlying().(*types.Struct)
	for i := 0; i < st.NumFields(); i++ {
		if st.Field(i).Name() == field {
			return st.Field(i).Type()
		}
	}
	panic("no field " + field)
}

// readBack models setNewVal + a later txn.Get: the stored value is a copy of
// res in memory owned by LMDB (absent when res is empty).
func (rc *relCtx) readBack(res Sl, tag string) Sl {
	e := rc.e
	arr := e.newArr()
	m := e.byteMem(e.cur)
	src := e.constFor("rbsrc", sel(m, res.Arr))
	na := e.freshT("rb_"+tag, SArr)
	_ = src
	e.setVar("M|byte", store(m, arr, na))
	empty := eq(res.Len, bv64(0))
	out := Sl{Arr: ite(empty, bv64(0), arr), Off: bv64(0), Len: res.Len, Cap: ite(empty, bv64(0), res.Len), Elem: res.Elem}
	out = e.nameVal(out, "stored_"+tag).(Sl)
	// a copy has the same value under every (opaque) spec function
	var names []string
	for n, sf := range e.L.Contracts.Specs {
		if sf.Opaque && len(sf.Params) == 1 {
			names = append(names, n)
		}
	}
	sort.Strings(names)
	bs := types.NewSlice(types.Typ[types.Uint8])
	for _, n := range names {
		env := rc.env.child()
		env.st = e.cur
		env.names["v!a"] = TV{V: Sl{Arr: arr, Off: bv64(0), Len: res.Len, Cap: res.Len, Elem: res.Elem}, Ty: bs}
		env.names["v!b"] = TV{V: res, Ty: bs}
		ex, _ := parseExprCached(n + "(v_a) == " + n + "(v_b)")
		_ = ex
		ea := e.eval(env, &ast.CallExpr{Fun: &ast.Ident{Name: n}, Args: []ast.Expr{&ast.Ident{Name: "v!a"}}})
		eb := e.eval(env, &ast.CallExpr{Fun: &ast.Ident{Name: n}, Args: []ast.Expr{&ast.Ident{Name: "v!b"}}})
		e.assume(e.eqVal(ea.V, eb.V))
	}
	return out
}

// toEntry converts a stored value into the snapshot entry a dump would produce
// (readDBI: header fields split out, flags masked, value copied).
func (rc *relCtx) toEntry(v Sl, like relEntry, tag string) relEntry {
	e := rc.e
	env := rc.env.child()
	env.st = e.cur
	bs := types.NewSlice(types.Typ[types.Uint8])
	env.names["v"] = TV{V: v, Ty: bs}
	ts := e.evalScalar(env, "hdrTS(v)", SBV64)
	fl := e.evalScalar(env, "hdrFlags(v) & 1", SBV8)
	// the dumped value is a copy of the application value
	copyv := rc.freshBytes("dump_" + tag)
	env.names["c"] = TV{V: copyv, Ty: bs}
	ex, _ := parseExprCached("seqof(c) == appSeq(v)")
	e.assume(e.evalBool(env, Clause{Text: "dump copies the application value", Expr: ex, File: "rel"}))
	en := relEntry{name: tag, value: copyv, ts: ts, flags: zext(fl, 32), fmtVer: bv(3, 32), defTS: bv64(0), cutoff: like.cutoff,
		present: not(eq(v.Len, bv64(0)))}
	return en
}

func (e *Enc) evalScalar(env *Env, text, sort string) T {
	ex, err := parseExprCached(text)
	if err != nil {
		panic(err)
	}
	v, t := e.materialize(env, e.eval(env, ex), nil)
	_ = t
	return e.def("rv", e.scalar(v, sort))
}

func (e *Enc) evalSlice(env *Env, text string) Sl {
	ex, err := parseExprCached(text)
	if err != nil {
		panic(err)
	}
	return e.nameVal(e.asSl(env, e.eval(env, ex)), "rs").(Sl)
}

func (rc *relCtx) view(v Sl) relView {
	e := rc.e
	env := rc.env.child()
	env.st = e.cur
	env.names["v"] = TV{V: v, Ty: types.NewSlice(types.Typ[types.Uint8])}
	return relView{present: not(eq(v.Len, bv64(0))), ts: e.evalScalar(env, "hdrTS(v)", SBV64),
		del: e.def("del", not(eq(e.evalScalar(env, "hdrFlags(v) & 1", SBV8), bv(0, 8)))),
		seq: e.evalBSeq(env, "appSeq(v)")}
}

func (rc *relCtx) viewEq(a, b relView) T {
	same := and(eq(a.ts, b.ts), eq(a.del, b.del), T{fmt.Sprintf("(= %s %s)", a.seq, b.seq), SBool})
	return and(eq(a.present, b.present), implies(a.present, same))
}

// relObligations builds the relational obligations named in which.
func (e *Enc) relObligations(which string) {
	L := e.L
	merge := L.findFunc(repoModule+"/syncer", "(*NativeIterator).Merge")
	if merge == nil {
		e.errs = append(e.errs, "contract-unbound: syncer.(*NativeIterator).Merge not found")
		return
	}
	e.initState()
	e.seqAbstract = true
	e.opaqueReads = true
	name := "syncer.rel." + which
	e.topName = name
	e.frames = append(e.frames, &frame{fn: merge, name: name, ncall: map[string]int{}, nsafety: map[string]int{}})
	defer func() { e.frames = e.frames[:0] }()
	itParam := merge.Params[0]
	it := e.paramVal(itParam, true).(Ptr)
	pkg, _ := L.typesInfoFor(merge)
	rc := &relCtx{e: e, merge: merge, it: it, itT: it.Elem, name: name, env: &Env{names: map[string]TV{}, oldNames: map[string]TV{}, st: e.cur, pkg: pkg}}
	// the iterator's TxnID is non-zero (NewNativeIterator refuses 0)
	a := rc.freshBytes("a")
	{
		env := rc.env.child()
		env.st = e.cur
		env.names["a"] = TV{V: a, Ty: types.NewSlice(types.Typ[types.Uint8])}
		rc.env.names["a"] = env.names["a"]
		ex, _ := parseExprCached("len(a) == 0 || wfHeader(a)")
		e.assume(e.evalBool(env, Clause{Text: "stored value is absent or well formed (C14)", Expr: ex, File: "rel"}))
	}
	x := rc.newEntry("x")
	y := rc.newEntry("y")
	// one receiver: the stale-deletion cutoff is the same for all merges of the scenario
	e.assume(eq(x.cutoff, y.cutoff))
	rc.env.names["cutoff"] = TV{V: Sc{x.cutoff}, Ty: types.Typ[types.Uint64]}
	// the iterator's scratch buffer is private: it never aliases data handed in
	{
		buf := rc.getField("buf").(Sl)
		for _, in := range []Sl{a, x.value, y.value} {
			e.assume(or(not(eq(buf.Arr, in.Arr)), eq(buf.Arr, bv64(0))))
		}
		e.assume(ult(buf.Arr, T{e.prefix + "allocArr0", SBV64}))
	}
	e.inputs = nil
	mem := e.byteMem(e.cur)
	addBytes := func(n string, s Sl) {
		e.inputs = append(e.inputs, InputVar{Name: n, Kind: "bytes", Arr: s.Arr.S, Off: s.Off.S, Len: s.Len.S, Cap: s.Cap.S, MemVar: mem.S})
	}
	addInt := func(n string, t T) {
		e.inputs = append(e.inputs, InputVar{Name: n, Kind: "int", Bits: sortWidth(t.Sort), Expr: t.S})
	}
	addBytes("a", a)
	for _, en := range []relEntry{x, y} {
		addBytes(en.name+".value", en.value)
		addInt(en.name+".ts", en.ts)
		addInt(en.name+".flags", en.flags)
		addInt(en.name+".fmt", en.fmtVer)
		addInt(en.name+".defTS", en.defTS)
		addInt(en.name+".cutoff", en.cutoff)
	}
	pad := rc.getField("HeaderPaddingBlock").(Sc)
	e.inputs = append(e.inputs, InputVar{Name: "padding", Kind: "bool", Bits: 1, Expr: pad.S})
	// view-level terms for reconstructing concrete inputs from a model
	{
		env := rc.env.child()
		env.st = e.cur
		ri := &relInfo{}
		ri.scalars = map[string]string{
			"a.len": a.Len.S, "a.ts": e.evalScalar(env, "hdrTS(a)", SBV64).S, "a.flags": e.evalScalar(env, "hdrFlags(a)", SBV8).S,
			"padding": pad.S,
		}
		seqs := map[string]string{"a": e.evalBSeq(env, "appSeq(a)"), "empty": "emptyseq"}
		for _, en := range []relEntry{x, y} {
			ri.scalars[en.name+".ts"] = en.ts.S
			ri.scalars[en.name+".flags"] = en.flags.S
			ri.scalars[en.name+".fmt"] = en.fmtVer.S
			ri.scalars[en.name+".defTS"] = en.defTS.S
			ri.scalars[en.name+".cutoff"] = en.cutoff.S
			seqs[en.name] = e.evalBSeq(env, "seqof("+en.name+"_value)")
		}
		ri.seqs = seqs
		e.rel = ri
	}
	e.cover(name+"/cover.pre", tTrue)

	start := e.cur.clone()
	restart := func() { e.cur = start.clone(); e.reach = tTrue }
	switch which {
	case "merge_idempotent":
		r1 := rc.run(x, a, "ax")
		r2 := rc.run(x, r1, "axx")
		e.obligeRel(rc, name+"/rel.idempotent", rc.viewEq(rc.view(r1), rc.view(r2)))
	case "merge_commutative":
		// snapshot merges: LoadOnce passes no default timestamp (the default is
		// the shadow-capture use, where merges are ordered in time)
		e.assume(and(eq(x.defTS, bv64(0)), eq(y.defTS, bv64(0))))
		r1 := rc.run(x, a, "ax")
		r2 := rc.run(y, r1, "axy")
		v12 := rc.view(r2)
		s12 := e.cur
		restart()
		// keep memory of the first order alive for the comparison: the views hold their own array terms
		q1 := rc.run(y, a, "ay")
		q2 := rc.run(x, q1, "ayx")
		v21 := rc.view(q2)
		_ = s12
		e.obligeRel(rc, name+"/rel.commutative", rc.viewEq(v12, v21))
	case "merge_associative":
		e.assume(and(eq(x.defTS, bv64(0)), eq(y.defTS, bv64(0))))
		r1 := rc.run(x, a, "ax")
		r2 := rc.run(y, r1, "axy")
		vLeft := rc.view(r2)
		restart()
		empty := Sl{Arr: bv64(0), Off: bv64(0), Len: bv64(0), Cap: bv64(0), Elem: types.Typ[types.Uint8]}
		j1 := rc.run(x, empty, "ex")
		j2 := rc.run(y, j1, "exy")
		xy := rc.toEntry(j2, y, "xy")
		// The join x⊔y is absent only when both versions were dropped as stale
		// deletion markers (the recorded finding); otherwise it is an entry.
		{
			env := rc.env.child()
			env.st = e.cur
			ex, _ := parseExprCached("((x_flags & 1 != 0 || (len(x_value) == 0 && x_fmt < 2)) && x_ts < cutoff) || ((y_flags & 1 != 0 || (len(y_value) == 0 && y_fmt < 2)) && y_ts < cutoff)")
			stale := e.evalBool(env, Clause{Text: "stale class", Expr: ex, File: "rel"})
			e.oblige("rel", name+"/rel.join_absent_only_if_stale", implies(not(xy.present), stale), 0)
			e.assume(xy.present)
			xy.present = tTrue
		}
		r := rc.run(xy, a, "a_xy")
		vRight := rc.view(r)
		e.obligeRel(rc, name+"/rel.associative", rc.viewEq(vLeft, vRight))
	default:
		e.errs = append(e.errs, "unknown relational obligation "+which)
	}
}

func (e *Enc) obligeRel(rc *relCtx, name string, goal T) {
	n := len(e.obls)
	e.oblige("rel", name, goal, 0)
	if len(e.obls) > n {
		env := rc.env.child()
		env.st = e.cur
		e.obls[n].Env = env
	}
}

// relHarness generates the K2 replay: the real Merge chained in the orders
// the obligation compares, on the model's inputs.
func relHarness(which string, mb map[string]*modelBytes, scal map[string]uint64) string {
	lit := func(n string) string {
		m := mb[n]
		if m == nil || m.Arr == 0 {
			return "[]byte(nil)"
		}
		k := m.Len
		if k > uint64(len(m.Data)) {
			k = uint64(len(m.Data))
		}
		s := "[]byte{"
		for i := uint64(0); i < m.Len; i++ {
			if i < k {
				s += fmt.Sprintf("%d,", m.Data[i])
			} else {
				s += "0,"
			}
		}
		return s + "}"
	}
	ent := func(n string) string {
		return fmt.Sprintf("entry{value: %s, ts: %d, flags: %d, fmtv: %d, defTS: %d, cutoff: %d}", lit(n+".value"), scal[n+".ts"], uint32(scal[n+".flags"]), uint32(scal[n+".fmt"]), scal[n+".defTS"], scal[n+".cutoff"])
	}
	var cmp string
	switch which {
	case "merge_idempotent":
		cmp = "r1 := merge(a, x)\n\tr2 := merge(r1, x)\n\tleft, right := view(r1), view(r2)"
	case "merge_commutative":
		cmp = "left, right := view(merge(merge(a, x), y)), view(merge(merge(a, y), x))"
	case "merge_associative":
		cmp = "left := view(merge(merge(a, x), y))\n\tj := merge(merge(nil, x), y)\n\tright := view(a)\n\tif len(j) > 0 {\n\t\th, app, _ := header.Parse(j)\n\t\tright = view(merge(a, entry{value: append([]byte(nil), app...), ts: uint64(h.Timestamp), flags: uint32(h.Flags.Masked()), fmtv: 3, defTS: 0, cutoff: y.cutoff}))\n\t}"
	}
	return fmt.Sprintf(`package syncer

import (
	"fmt"
	"testing"

	"github.com/PowerDNS/lightningstream/lmdbenv/header"
	"github.com/PowerDNS/lightningstream/snapshot"
)

type entry struct {
	value              []byte
	ts                 uint64
	flags, fmtv        uint32
	defTS, cutoff      uint64
}

// Relational replay (%s): the real NativeIterator.Merge chained in both orders.
func TestLsvcReplay(t *testing.T) {
	padding := %v
	merge := func(old []byte, e entry) []byte {
		it := &NativeIterator{FormatVersion: e.fmtv, DefaultTimestampNano: header.Timestamp(e.defTS), DeletedCutoff: header.Timestamp(e.cutoff), TxnID: 7, HeaderPaddingBlock: padding}
		it.curKV = snapshot.KV{Key: []byte("k"), Value: e.value, TimestampNano: e.ts, Flags: e.flags}
		v, err := it.Merge(old)
		if err != nil {
			panic(err)
		}
		if len(v) == 0 {
			return nil // strategy.setNewVal deletes the key
		}
		return append([]byte(nil), v...)
	}
	view := func(v []byte) string {
		if len(v) == 0 {
			return "absent"
		}
		h, app, err := header.Parse(v)
		if err != nil {
			return "unparsable"
		}
		return fmt.Sprintf("ts=%%d deleted=%%v value=%%x", h.Timestamp, h.Flags.IsDeleted(), app)
	}
	a := %s
	x := %s
	y := %s
	_ = y
	%s
	fmt.Println("LSVC-REPLAY: left :", left)
	fmt.Println("LSVC-REPLAY: right:", right)
	if left != right {
		fmt.Println("LSVC-REPLAY: CONFIRMED (the two merge orders give different logical content on the real code)")
	}
}
`, which, scal["padding"] != 0, lit("a"), ent("x"), ent("y"), cmp)
}


type relInfo struct {
	scalars map[string]string // name -> SMT term
	seqs    map[string]string // a, x, y, empty -> BSeq term
}

func (e *Enc) evalBSeq(env *Env, text string) string {
	ex, err := parseExprCached(text)
	if err != nil {
		panic(err)
	}
	v := e.eval(env, ex)
	sc, ok := v.V.(Sc)
	if !ok || sc.Sort != "BSeq" {
		panic("not a sequence: " + text)
	}
	return e.def("bs", sc.T).S
}

// relModel asks the solver for a view-level model and builds concrete inputs:
// header fields of the stored value, and byte strings for the application
// values that realise the model's equalities and order.
func (r *Report) relModel(e *Enc, ob *Obligation) (map[string]interface{}, map[string]*modelBytes, map[string]uint64) {
	ri := e.rel
	if ri == nil {
		return nil, nil, nil
	}
	var names []string
	for n := range ri.scalars {
		names = append(names, n)
	}
	sort.Strings(names)
	seqNames := []string{"empty", "a", "x", "y"}
	var terms []string
	for _, n := range names {
		terms = append(terms, ri.scalars[n])
	}
	for _, p := range seqNames {
		for _, q := range seqNames {
			terms = append(terms, fmt.Sprintf("(= %s %s)", ri.seqs[p], ri.seqs[q]), fmt.Sprintf("(lexle %s %s)", ri.seqs[p], ri.seqs[q]))
		}
	}
	o2 := *ob
	o2.Extra = append(append([]string{}, ob.Extra...), ob.Res.Cube...)
	q := "(set-option :produce-models true)\n" + e.query(&o2, false)
	if !e.usesLex {
		q = strings.Replace(q, "(declare-sort BSeq 0)", "(declare-sort BSeq 0)\n(declare-fun lexle (BSeq BSeq) Bool)", 1)
	}
	for _, t := range terms {
		q += "(get-value (" + t + "))\n"
	}
	res := solve(r.Work, ob.Name+".relmodel", q, r.Opts.timeout, r.Opts.seed, "z3")
	if res.Status != "sat" {
		return nil, nil, nil
	}
	var vals []uint64
	for _, ln := range strings.Split(res.Output, "\n") {
		ln = strings.TrimSpace(ln)
		if !strings.HasPrefix(ln, "((") {
			continue
		}
		idx := strings.LastIndex(ln, " ")
		v, ok := parseBVLit(strings.TrimSuffix(ln[idx+1:], "))"))
		if !ok {
			return nil, nil, nil
		}
		vals = append(vals, v)
	}
	if len(vals) != len(terms) {
		return nil, nil, nil
	}
	scal := map[string]uint64{}
	for i, n := range names {
		scal[n] = vals[i]
	}
	k := len(names)
	eqm := map[string]bool{}
	lem := map[string]bool{}
	for _, p := range seqNames {
		for _, q := range seqNames {
			eqm[p+q] = vals[k] != 0
			lem[p+q] = vals[k+1] != 0
			k += 2
		}
	}
	// classes of equal sequences; "empty" is the empty string
	class := map[string]string{}
	for _, p := range seqNames {
		class[p] = p
		for _, q := range seqNames {
			if q == p {
				break
			}
			if eqm[p+q] {
				class[p] = class[q]
				break
			}
		}
	}
	var reps []string
	for _, p := range seqNames {
		if class[p] == p && p != "empty" && class[p] != "empty" {
			reps = append(reps, p)
		}
	}
	// rank the non-empty classes by the model's order (number of classes below)
	rank := map[string]int{}
	for _, p := range reps {
		for _, q := range reps {
			if p != q && lem[q+p] && !lem[p+q] {
				rank[p]++
			}
		}
	}
	content := map[string][]byte{"empty": nil}
	used := map[int]bool{}
	for _, p := range reps {
		rk := rank[p]
		for used[rk] {
			rk++
		}
		used[rk] = true
		content[p] = []byte{byte(0x41 + rk)}
	}
	val := func(p string) []byte { return content[class[p]] }
	mb := map[string]*modelBytes{}
	mk := func(name string, data []byte) {
		if len(data) == 0 {
			mb[name] = &modelBytes{}
			return
		}
		mb[name] = &modelBytes{Arr: 1, Len: uint64(len(data)), Cap: uint64(len(data)), Data: data}
	}
	mk("x.value", val("x"))
	mk("y.value", val("y"))
	if scal["a.len"] == 0 {
		mk("a", nil)
	} else {
		h := make([]byte, 24)
		for i := 0; i < 8; i++ {
			h[i] = byte(scal["a.ts"] >> uint(56-8*i))
		}
		h[15] = 1 // some transaction id
		h[17] = byte(scal["a.flags"])
		mk("a", append(h, val("a")...))
	}
	inputs := map[string]interface{}{}
	for n, v := range scal {
		inputs[n] = v
	}
	for n, b := range mb {
		inputs[n] = fmt.Sprintf("%x", b.Data)
	}
	return inputs, mb, scal
}
