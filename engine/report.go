package main

import (
	"regexp"
	"sync"
	"encoding/json"
	"fmt"
	"os"
	"path/filepath"
	"sort"
	"strings"
	"time"
)

type Report struct {
	Prop    *PropSpec
	Opts    *checkOpts
	L       *Loader
	All     []oblResult
	EncErrs []string
	Encs    []*Enc
	Funcs   []string
	T0      time.Time
	Work    string
}

type oblEvidence struct {
	Name   string `json:"name"`
	Kind   string `json:"kind"`
	Pos    string `json:"pos,omitempty"`
	Result string `json:"result"`
	Solver string `json:"solver"`
	Ms     int64  `json:"ms"`
	Note   string `json:"note,omitempty"`
}

var trustedBase = []string{
	"go/packages, go/types, go/ssa (x/tools v0.29.0) lower /repo's source faithfully; lsvc implements the Go spec for the SSA instruction subset it encodes (selftest corpus and replays are the safeguard)",
	"SMT solvers z3 5.1.0 / z3 4.8.12 / cvc5 1.0.3 are sound: an unsat answer is believed",
	"Go runtime/stdlib built-ins as specified: copy, append (in-place iff capacity suffices), bytes.Equal, bytes.Compare (a total order on byte sequences with the empty sequence least), encoding/binary fixed-width accessors, allocation limit 2^48 bytes per slice",
	"all Go integers are bit-vectors of their exact width (wrap-around is modelled, nothing is treated as mathematical); floats are uninterpreted",
	"receivers and dereferenced pointer parameters are non-nil; distinct allocations never alias",
	"calls on the pure list (logging, metrics, fmt, time.Now) touch neither byte memory, the heap under contract, LMDB nor the bucket",
}

func (r *Report) finish() (int, error) {
	o := r.Opts
	known := r.L.Known
	var evs []oblEvidence
	nObl, nDis := 0, 0
	var violations []string
	var knownLines []string
	var pendIdx []int
	var pendFn []func() string
	encMu.Lock()
	solverMs := map[string]int64{}
	var samples []interface{}
	replayDir := filepath.Join(verifDir, "replays", r.Prop.ID)
	os.RemoveAll(replayDir)

	sort.SliceStable(r.All, func(i, j int) bool { return r.All[i].O.Name < r.All[j].O.Name })
	// vacuity guards of one clause checked on several paths
	groupOK := map[string]bool{}
	for i := range r.All {
		if ob := r.All[i].O; ob.Kind == "cover" && ob.Group != "" && ob.Res.Status != "unsat" {
			groupOK[ob.Group] = true
		}
	}
	// recorded findings: class predicates first (sequential), then the solver work in parallel
	works := map[int]*knownWork{}
	for i := range r.All {
		ob := r.All[i].O
		if ob.Kind == "cover" || ob.Res.Status == "unsat" || ob.NoFinding {
			continue
		}
		if kf := known.match(r.Prop.ID, ob.Name); kf != nil {
			works[i] = r.knownPrep(r.All[i].E, ob, kf)
		}
	}
	{
		var wg sync.WaitGroup
		for _, w := range works {
			wg.Add(1)
			go func(w *knownWork) { defer wg.Done(); r.knownSolve(w) }(w)
		}
		wg.Wait()
	}
	for i := range r.All {
		ob := r.All[i].O
		e := r.All[i].E
		ev := oblEvidence{Name: ob.Name, Kind: ob.Kind, Pos: ob.Pos, Result: ob.Res.Status, Solver: ob.Res.Solver, Ms: ob.Res.Ms}
		solverMs[ob.Res.Solver] += ob.Res.Ms
		if ob.Kind == "cover" {
			// vacuity guard: must be satisfiable
			if ob.Res.Status != "sat" {
				ev.Note = "vacuity guard failed: expected sat"
				if ob.Res.Status == "unsat" && ob.Group != "" && groupOK[ob.Group] {
					ev.Note = "impossible on this path; satisfiable on another path of the same clause"
				} else if ob.Res.Status == "unsat" {
					r.EncErrs = append(r.EncErrs, fmt.Sprintf("vacuity: %s is unsatisfiable (contradictory assumptions)", ob.Name))
				} else {
					ev.Note = "vacuity guard undecided (" + ob.Res.Status + ")"
				}
			}
			evs = append(evs, ev)
			continue
		}
		nObl++
		if ob.Res.Status == "unsat" {
			nDis++
			evs = append(evs, ev)
			if len(samples) < 3 && ob.Goal.S != "true" {
				g := ob.Goal.S
				if len(g) > 400 {
					g = g[:400] + "..."
				}
				samples = append(samples, map[string]string{"obligation": ob.Name, "goal": g, "reach": ob.Reach.S, "result": "unsat", "solver": ob.Res.Solver})
			}
			continue
		}
		// not discharged
		kf := known.match(r.Prop.ID, ob.Name)
		if kf != nil && ob.NoFinding {
			kf = nil // clauses used as lemmas are never weakened by a finding
		}
		if kf != nil {
			ok, note, pend := r.checkKnown(works[i])
			if ok {
				if pend != nil {
					pendIdx = append(pendIdx, len(evs))
					pendFn = append(pendFn, pend)
				}
				nDis++ // discharged outside the recorded class
				ev.Result = "unsat-outside-known-class"
				ev.Note = note
				knownLines = append(knownLines, fmt.Sprintf("KNOWN-FINDING: property=%s %s [%s]", r.Prop.ID, kf.Text, ob.Name))
				evs = append(evs, ev)
				continue
			}
			ev.Note = "known finding does not cover this failure: " + note
		}
		path := r.writeReplay(replayDir, e, ob)
		confirmed := false
		if (ob.Res.Status == "sat" || fileExists(filepath.Join(verifDir, "replay", sanitize(ob.Name)+".go"))) && !o.noReplay {
			confirmed = r.replay(path, e, ob)
		}
		line := fmt.Sprintf("VIOLATION property=%s replay=%s", r.Prop.ID, path)
		if !confirmed {
			line += " no-failing-input-found"
		}
		violations = append(violations, line)
		ev.Note = strings.TrimSpace(ev.Note + " obligation failed: " + ob.Res.Status)
		evs = append(evs, ev)
	}
	encMu.Unlock()
	if len(pendFn) > 0 {
		var wg sync.WaitGroup
		sem := make(chan struct{}, 6)
		for k := range pendFn {
			wg.Add(1)
			go func(k int) {
				defer wg.Done()
				sem <- struct{}{}
				defer func() { <-sem }()
				evs[pendIdx[k]].Note += pendFn[k]()
			}(k)
		}
		wg.Wait()
	}
	// fixed entries: nothing suppressed; findings whose defect is gone print nothing.
	for _, m := range r.EncErrs {
		path := filepath.Join(replayDir, "engine-error.txt")
		os.MkdirAll(replayDir, 0o755)
		f, _ := os.OpenFile(path, os.O_APPEND|os.O_CREATE|os.O_WRONLY, 0o644)
		fmt.Fprintln(f, m)
		f.Close()
	}
	if len(r.EncErrs) > 0 {
		violations = append(violations, fmt.Sprintf("VIOLATION property=%s replay=%s no-failing-input-found", r.Prop.ID, filepath.Join(replayDir, "engine-error.txt")))
	}
	if nObl == 0 {
		r.EncErrs = append(r.EncErrs, "no obligations generated (vacuous check)")
		violations = append(violations, fmt.Sprintf("VIOLATION property=%s replay=%s no-failing-input-found", r.Prop.ID, filepath.Join(replayDir, "engine-error.txt")))
	}

	// evidence
	abstracted := map[string]int{}
	inlined := map[string]int{}
	modular := map[string]int{}
	trusted := map[string]int{}
	for _, e := range r.Encs {
		for k, v := range e.abstracted {
			abstracted[k] += v
		}
		for k, v := range e.inlined {
			inlined[k] += v
		}
		for k, v := range e.modular {
			modular[k] += v
		}
		for k, v := range e.trusted {
			trusted[k] += v
		}
	}
	var unrolled []string
	for _, e := range r.Encs {
		unrolled = append(unrolled, e.unrolled...)
	}
	sort.Strings(unrolled)
	assumptions := append([]string{}, r.Prop.Assumptions...)
	for k := range trusted {
		assumptions = append(assumptions, "trusted: "+k)
	}
	sort.Strings(assumptions)
	cov := map[string]interface{}{
		"obligations":              nObl,
		"discharged":               nDis,
		"checker_cmd":              fmt.Sprintf("bin/lsvc check --property %s --tier %s", r.Prop.ID, o.tier),
		"trusted_base":             trustedBase,
		"functions_under_contract": r.Funcs,
		"per_obligation":           evs,
		"abstracted":               abstracted,
		"inlined_callees":          inlined,
		"unrolled_loops":           unrolled,
		"modular_callees":          modular,
		"solver_ms":                solverMs,
		"load_ms":                  r.L.LoadMs,
		"samples":                  samples,
		"known_findings":           knownLines,
		"not_decided":              r.Prop.NotDecided,
		"engine_errors":            r.EncErrs,
		"contract_files":           r.L.Contracts.Files,
		"explanation":              "every obligation is one SMT query generated from /repo's working tree (go/ssa, build tag verif) against the contracts in zz_contracts_verif.go; unsat = discharged",
	}
	evd := map[string]interface{}{
		"property_id": r.Prop.ID,
		"tier":        o.tier,
		"seed":        o.seed,
		"level":       "proof",
		"coverage":    cov,
		"assumptions": assumptions,
		"wall_s":      time.Since(r.T0).Seconds(),
		"violations":  len(violations),
	}
	evDir := filepath.Join(verifDir, "evidence")
	if r.Opts.repo != "/repo" || r.Opts.only != "" {
		// runs against a scratch copy (mutation tests, seeded changes) never
		// touch the evidence of the real tree
		evDir = filepath.Join(verifDir, "work", "evidence-scratch")
	}
	os.MkdirAll(evDir, 0o755)
	data, _ := json.MarshalIndent(evd, "", " ")
	if err := os.WriteFile(filepath.Join(evDir, r.Prop.ID+".json"), data, 0o644); err != nil {
		return 2, err
	}
	for _, l := range knownLines {
		fmt.Println(l)
	}
	for _, m := range r.EncErrs {
		fmt.Println("ENGINE-ERROR:", m)
	}
	for _, l := range violations {
		fmt.Println(l)
	}
	fmt.Printf("%s %s: %d obligations, %d discharged, %d functions, %.1fs\n", r.Prop.ID, o.tier, nObl, nDis, len(r.Funcs), time.Since(r.T0).Seconds())
	if o.verbose {
		for _, ev := range evs {
			fmt.Printf("  %-8s %-9s %5dms %s %s\n", ev.Result, ev.Solver, ev.Ms, ev.Name, ev.Note)
		}
		var ks []string
		for k, v := range abstracted {
			ks = append(ks, fmt.Sprintf("%s×%d", k, v))
		}
		sort.Strings(ks)
		fmt.Println("  abstracted:", strings.Join(ks, ", "))
	}
	if !o.keep && len(violations) == 0 {
		os.RemoveAll(r.Work)
	}
	if len(violations) > 0 {
		return 1, nil
	}
	return 0, nil
}

// ------------------------------------------------------------------ known findings

type knownFinding struct {
	Kind       string // finding | fixed
	Property   string
	Obligation string
	Class      string
	Text       string
}

type knownSet struct{ list []knownFinding }

func loadKnownFindings(path string) *knownSet {
	ks := &knownSet{}
	data, err := os.ReadFile(path)
	if err != nil {
		return ks
	}
	for _, ln := range strings.Split(string(data), "\n") {
		ln = strings.TrimSpace(ln)
		if ln == "" || strings.HasPrefix(ln, "#") {
			continue
		}
		var kf knownFinding
		if strings.HasPrefix(ln, "finding:") {
			kf.Kind = "finding"
			ln = strings.TrimSpace(strings.TrimPrefix(ln, "finding:"))
		} else if strings.HasPrefix(ln, "fixed:") {
			kf.Kind = "fixed"
			ln = strings.TrimSpace(strings.TrimPrefix(ln, "fixed:"))
		} else {
			continue
		}
		for {
			switch {
			case strings.HasPrefix(ln, "property="):
				f := strings.SplitN(ln, " ", 2)
				kf.Property = strings.TrimPrefix(f[0], "property=")
				ln = rest(f)
				continue
			case strings.HasPrefix(ln, "obligation="):
				f := strings.SplitN(ln, " ", 2)
				kf.Obligation = strings.TrimPrefix(f[0], "obligation=")
				ln = rest(f)
				continue
			case strings.HasPrefix(ln, "class=\""):
				j := strings.Index(ln[7:], "\"")
				kf.Class = ln[7 : 7+j]
				ln = strings.TrimSpace(ln[8+j:])
				continue
			}
			break
		}
		kf.Text = ln
		ks.list = append(ks.list, kf)
	}
	return ks
}

func rest(f []string) string {
	if len(f) > 1 {
		return strings.TrimSpace(f[1])
	}
	return ""
}

func (ks *knownSet) matchAny(obl string) *knownFinding {
	if ks == nil {
		return nil
	}
	for i := range ks.list {
		k := &ks.list[i]
		if k.Kind == "finding" && k.Obligation == obl {
			return k
		}
	}
	return nil
}

var reEdgeSuffix = regexp.MustCompile(`(@\d+|~\d+)+$`)

// A finding names an invariant or clause of a loop or call site; the numbering
// of back edges (@n) and of repeated obligations (~n) depends on how the code
// around it happens to be laid out, so it is not part of the identity (the
// class predicate still limits what the finding covers).
func (ks *knownSet) match(prop, obl string) *knownFinding {
	for i := range ks.list {
		k := &ks.list[i]
		if k.Kind == "finding" && k.Property == prop && (k.Obligation == obl || reEdgeSuffix.ReplaceAllString(k.Obligation, "") == reEdgeSuffix.ReplaceAllString(obl, "")) {
			return k
		}
	}
	return nil
}

// A recorded finding is checked in three steps: knownPrep evaluates the class
// predicate in the obligation's environment (sequential, touches the encoder),
// knownSolve proves the obligation outside the class (goal ∨ class) and checks
// the class is still a real failure (class ∧ ¬goal satisfiable) — solver work
// only, run in parallel — and checkKnown turns the result into a verdict.
type knownWork struct {
	e       *Enc
	ob      *Obligation
	kf      *knownFinding
	err     string
	out, in *Obligation
	extra   []string
	res2    SolveResult
}

func (r *Report) knownPrep(e *Enc, ob *Obligation, kf *knownFinding) *knownWork {
	w := &knownWork{e: e, ob: ob, kf: kf}
	if ob.Env == nil {
		w.err = "obligation carries no environment for a class predicate"
		return w
	}
	ex, err := parseExprCached(kf.Class)
	if err != nil {
		w.err = err.Error()
		return w
	}
	nerr := len(e.errs)
	nl := len(e.lines)
	np := len(e.seqPairs)
	cls := e.evalBool(ob.Env, Clause{Text: kf.Class, Expr: ex, File: "KNOWN_FINDINGS.txt"})
	for i := np; i < len(e.seqPairs); i++ {
		e.seqPairs[i].at = ob.Upto
	}
	extra := append([]string{}, e.lines[nl:]...)
	e.lines = e.lines[:nl]
	if len(e.errs) > nerr {
		msg := e.errs[len(e.errs)-1]
		e.errs = e.errs[:nerr]
		w.err = "class predicate does not evaluate: " + msg
		return w
	}
	w.extra = extra
	w.out = &Obligation{Name: ob.Name + ".outside-known-class", Kind: ob.Kind, Func: ob.Func, Upto: ob.Upto, Reach: ob.Reach, Goal: or(ob.Goal, cls), Expect: "unsat", Extra: extra}
	w.in = &Obligation{Name: ob.Name + ".inside-known-class", Upto: ob.Upto, Reach: ob.Reach, Goal: or(ob.Goal, not(cls)), Expect: "sat", Extra: extra}
	return w
}

func (r *Report) knownSolve(w *knownWork) {
	if w.err != "" {
		return
	}
	tmp := oblResult{O: w.out, E: w.e}
	decide(&tmp, r.Opts, r.Work)
	if w.out.Res.Status != "unsat" {
		return
	}
	// non-vacuity of the class is a sanity check, not a proof step: half the budget
	w.res2 = solve(r.Work, w.in.Name, w.e.query(w.in, false), (r.Opts.timeout+1)/2, r.Opts.seed, "")
}

func (r *Report) checkKnown(w *knownWork) (bool, string, func() string) {
	if w.err != "" {
		return false, w.err, nil
	}
	e, ob, kf, out, in := w.e, w.ob, w.kf, w.out, w.in
	res := out.Res
	if res.Status != "unsat" {
		// report the failure outside the class: later model extraction and
		// replay work on the obligation with the class excluded
		ob.Goal = out.Goal
		ob.Extra = out.Extra
		ob.Res = res
		return false, "a failure outside the recorded class exists (" + res.Status + ")", nil
	}
	res2 := w.res2
	if res2.Status == "unsat" {
		return false, "recorded class no longer fails, but the obligation does", nil
	}
	var pending func() string
	if !r.Opts.noReplay {
		// the finding is re-confirmed on the real code on every run where a replay exists
		in2 := *ob
		in2.Goal = in.Goal
		in2.Extra = in.Extra
		in2.Res = res2
		dir := filepath.Join(verifDir, "replays", r.Prop.ID)
		in2.Name = ob.Name
		path := r.writeReplay(dir, e, &in2)
		npath := strings.TrimSuffix(path, ".json") + ".known-finding.json"
		os.Rename(path, npath)
		if res2.Status == "sat" || fileExists(filepath.Join(verifDir, "replay", sanitize(ob.Name)+".go")) {
			// replays of known findings run after the proof phase, in parallel
			pending = func() string {
				encMu.Lock()
				defer encMu.Unlock()
				if r.replay(npath, e, &in2) {
					return "; replayed on the real code: confirmed (" + npath + ")"
				}
				return "; replay on the real code did not confirm (" + npath + ")"
			}
		}
	}
	return true, fmt.Sprintf("proved outside class {%s} by %s in %dms; class still fails (%s)", kf.Class, res.Solver, res.Ms, res2.Status), pending
}

// encMu serialises everything that touches an Enc after the proof phase;
// runHarness releases it while the go test process runs.
var encMu sync.Mutex

func fileExists(p string) bool {
	_, err := os.Stat(p)
	return err == nil
}
