package main

import (
	"fmt"
	"go/types"
	"strings"

	"golang.org/x/tools/go/ssa"
)

// Val is the encoder-side representation of a Go value: an aggregate of SMT
// terms (no SMT datatypes are used; DESIGN 4.7).
type Val interface{ isVal() }

type Sc struct{ T }                                   // integer / bool / float (opaque bits)
type Sl struct{ Arr, Off, Len, Cap T; Elem types.Type } // slice
type Str struct{ Arr, Off, Len T }                     // string: immutable byte sequence
type St struct {
	F   []Val
	Typ types.Type // struct or array type (underlying)
}
type Ifc struct {
	Id   T          // identity, 0 == nil
	Dyn  Val        // statically known payload (nil if unknown)
	DynT types.Type // its type
}
type Fn struct {
	F    *ssa.Function
	Bind []Val
	Id   T
}
type Op struct { // opaque value (map, chan, unknown): an identity only
	Id  T
	Typ types.Type
}
type Tup struct{ V []Val }

type ptrKind int

const (
	pCell ptrKind = iota
	pHeap
	pElem
	pGlobal
	pOpaque
	pArr // pointer to an array object that lives in element memory (Sl describes it)
)

type Ptr struct {
	K    ptrKind
	Cell *ssa.Alloc
	Ref  T          // pHeap: object reference (0 == nil); pOpaque: identity
	Obj  types.Type // pHeap: type of the object Ref points to
	Path []int      // field / array-index path inside cell or object
	Sl   Sl         // pElem
	Idx  T          // pElem
	Glob *ssa.Global
	Elem types.Type // pointee type
}

func (Sc) isVal()  {}
func (Sl) isVal()  {}
func (Str) isVal() {}
func (St) isVal()  {}
func (Ifc) isVal() {}
func (Fn) isVal()  {}
func (Op) isVal()  {}
func (Tup) isVal() {}
func (Ptr) isVal() {}

func isByte(t types.Type) bool {
	b, ok := t.Underlying().(*types.Basic)
	return ok && (b.Kind() == types.Uint8 || b.Kind() == types.Int8)
}

func basicSort(b *types.Basic) string {
	switch b.Kind() {
	case types.Bool, types.UntypedBool:
		return SBool
	case types.Int8, types.Uint8:
		return SBV8
	case types.Int16, types.Uint16:
		return SBV16
	case types.Int32, types.Uint32, types.UntypedRune:
		return SBV32
	case types.Float32:
		return SBV32
	default:
		return SBV64
	}
}

func isSigned(t types.Type) bool {
	b, ok := t.Underlying().(*types.Basic)
	if !ok {
		return false
	}
	switch b.Kind() {
	case types.Int, types.Int8, types.Int16, types.Int32, types.Int64, types.UntypedInt, types.UntypedRune:
		return true
	}
	return false
}

func isFloat(t types.Type) bool {
	b, ok := t.Underlying().(*types.Basic)
	return ok && b.Info()&types.IsFloat != 0
}

// leaf describes one SMT-level component of a flattened Go value.
type leaf struct {
	Name string
	Sort string
}

const maxArrayFlatten = 16

func leavesOf(t types.Type) []leaf {
	switch u := t.Underlying().(type) {
	case *types.Basic:
		if u.Info()&types.IsString != 0 {
			return []leaf{{"s.arr", SBV64}, {"s.off", SBV64}, {"s.len", SBV64}}
		}
		return []leaf{{"", basicSort(u)}}
	case *types.Slice:
		return []leaf{{"arr", SBV64}, {"off", SBV64}, {"len", SBV64}, {"cap", SBV64}}
	case *types.Struct:
		var out []leaf
		for i := 0; i < u.NumFields(); i++ {
			for _, l := range leavesOf(u.Field(i).Type()) {
				out = append(out, leaf{joinLeaf(u.Field(i).Name(), l.Name), l.Sort})
			}
		}
		return out
	case *types.Array:
		if u.Len() <= maxArrayFlatten {
			var out []leaf
			for i := int64(0); i < u.Len(); i++ {
				for _, l := range leavesOf(u.Elem()) {
					out = append(out, leaf{joinLeaf(fmt.Sprintf("[%d]", i), l.Name), l.Sort})
				}
			}
			return out
		}
		return []leaf{{"id", SBV64}}
	default:
		// pointer, interface, map, chan, func, tuple...
		return []leaf{{"id", SBV64}}
	}
}

func joinLeaf(a, b string) string {
	if b == "" {
		return a
	}
	if a == "" {
		return b
	}
	return a + "." + b
}

// flatten returns the SMT leaves of v in the order of leavesOf(t).
func (e *Enc) flatten(t types.Type, v Val) []T {
	switch u := t.Underlying().(type) {
	case *types.Basic:
		if u.Info()&types.IsString != 0 {
			s := v.(Str)
			return []T{s.Arr, s.Off, s.Len}
		}
		return []T{e.scalar(v, basicSort(u))}
	case *types.Slice:
		s, ok := v.(Sl)
		if !ok {
			s = e.freshVal(t, "sl").(Sl)
		}
		return []T{s.Arr, s.Off, s.Len, s.Cap}
	case *types.Struct:
		s := v.(St)
		var out []T
		for i := 0; i < u.NumFields(); i++ {
			out = append(out, e.flatten(u.Field(i).Type(), s.F[i])...)
		}
		return out
	case *types.Array:
		if u.Len() <= maxArrayFlatten {
			s := v.(St)
			var out []T
			for i := int64(0); i < u.Len(); i++ {
				out = append(out, e.flatten(u.Elem(), s.F[i])...)
			}
			return out
		}
		return []T{e.identity(v)}
	default:
		return []T{e.identity(v)}
	}
}

// identity gives the BV64 identity of a reference-like value.
func (e *Enc) identity(v Val) T {
	switch x := v.(type) {
	case Ptr:
		switch x.K {
		case pHeap:
			if len(x.Path) == 0 {
				return x.Ref
			}
		case pOpaque:
			return x.Ref
		}
		e.abstract("pointer-identity")
		return e.freshT("ptrid", SBV64)
	case Ifc:
		return x.Id
	case Op:
		return x.Id
	case Fn:
		if x.Id.S != "" {
			return x.Id
		}
		return e.freshT("fnid", SBV64)
	case Sc:
		if x.Sort == SBV64 {
			return x.T
		}
	}
	e.abstract("identity-of-unknown")
	return e.freshT("id", SBV64)
}

func (e *Enc) scalar(v Val, sort string) T {
	if s, ok := v.(Sc); ok {
		if s.Sort == sort {
			return s.T
		}
		if sort != SBool && s.Sort != SBool {
			return zext(s.T, sortWidth(sort))
		}
	}
	e.abstract("scalar-shape")
	return e.freshT("sc", sort)
}

// rebuild is the inverse of flatten; next() yields the leaves in order.
func (e *Enc) rebuild(t types.Type, next func() T) Val {
	switch u := t.Underlying().(type) {
	case *types.Basic:
		if u.Info()&types.IsString != 0 {
			return Str{next(), next(), next()}
		}
		return Sc{next()}
	case *types.Slice:
		return Sl{next(), next(), next(), next(), u.Elem()}
	case *types.Struct:
		fs := make([]Val, u.NumFields())
		for i := range fs {
			fs[i] = e.rebuild(u.Field(i).Type(), next)
		}
		return St{fs, u}
	case *types.Array:
		if u.Len() <= maxArrayFlatten {
			fs := make([]Val, u.Len())
			for i := range fs {
				fs[i] = e.rebuild(u.Elem(), next)
			}
			return St{fs, u}
		}
		return Op{next(), t}
	case *types.Pointer:
		return Ptr{K: pHeap, Ref: next(), Obj: u.Elem(), Elem: u.Elem()}
	case *types.Interface:
		return Ifc{Id: next()}
	default:
		return Op{next(), t}
	}
}

func (e *Enc) zeroVal(t types.Type) Val {
	ls := leavesOf(t)
	i := 0
	return e.rebuild(t, func() T {
		l := ls[i]
		i++
		if l.Sort == SBool {
			return tFalse
		}
		return bv(0, sortWidth(l.Sort))
	})
}

func (e *Enc) freshVal(t types.Type, hint string) Val {
	ls := leavesOf(t)
	i := 0
	v := e.rebuild(t, func() T {
		l := ls[i]
		i++
		return e.freshT(hint+"_"+sanitize(l.Name), l.Sort)
	})
	e.assumeTypeInv(t, v)
	return v
}

// assumeTypeInv records the type invariants of a freshly introduced value:
// slices have 0 <= len <= cap <= 2^48 and off+cap does not wrap.
func (e *Enc) assumeTypeInv(t types.Type, v Val) {
	switch x := v.(type) {
	case Sl:
		e.assume(e.slInv(x))
	case Str:
		e.assume(and(ule(x.Len, bv64(1<<48)), ule(x.Off, bv64(1<<48))))
	case St:
		switch u := t.Underlying().(type) {
		case *types.Struct:
			for i, f := range x.F {
				e.assumeTypeInv(u.Field(i).Type(), f)
			}
		case *types.Array:
			for _, f := range x.F {
				e.assumeTypeInv(u.Elem(), f)
			}
		}
	}
}

func (e *Enc) slInv(x Sl) T {
	lim := bv64(1 << 48)
	// a nil slice (arr == 0) has len == cap == 0 and off == 0
	return and(ule(x.Len, x.Cap), ule(x.Cap, lim), ule(x.Off, lim),
		implies(eq(x.Arr, bv64(0)), and(eq(x.Cap, bv64(0)), eq(x.Off, bv64(0)))))
}

func (e *Enc) iteVal(c T, a, b Val) Val {
	if c.S == "true" {
		return a
	}
	if c.S == "false" {
		return b
	}
	switch x := a.(type) {
	case Sc:
		if y, ok := b.(Sc); ok && x.Sort == y.Sort {
			return Sc{ite(c, x.T, y.T)}
		}
	case Sl:
		if y, ok := b.(Sl); ok {
			return Sl{ite(c, x.Arr, y.Arr), ite(c, x.Off, y.Off), ite(c, x.Len, y.Len), ite(c, x.Cap, y.Cap), x.Elem}
		}
	case Str:
		if y, ok := b.(Str); ok {
			return Str{ite(c, x.Arr, y.Arr), ite(c, x.Off, y.Off), ite(c, x.Len, y.Len)}
		}
	case St:
		if y, ok := b.(St); ok && len(x.F) == len(y.F) {
			fs := make([]Val, len(x.F))
			for i := range fs {
				fs[i] = e.iteVal(c, x.F[i], y.F[i])
			}
			return St{fs, x.Typ}
		}
	case Ifc:
		if y, ok := b.(Ifc); ok {
			if x.Id.S == y.Id.S {
				return x
			}
			return Ifc{Id: ite(c, x.Id, y.Id)}
		}
	case Op:
		if y, ok := b.(Op); ok {
			return Op{ite(c, x.Id, y.Id), x.Typ}
		}
	case Tup:
		if y, ok := b.(Tup); ok && len(x.V) == len(y.V) {
			vs := make([]Val, len(x.V))
			for i := range vs {
				vs[i] = e.iteVal(c, x.V[i], y.V[i])
			}
			return Tup{vs}
		}
	case Fn:
		if y, ok := b.(Fn); ok && x.F == y.F && len(x.Bind) == len(y.Bind) {
			same := true
			for i := range x.Bind {
				if !sameVal(x.Bind[i], y.Bind[i]) {
					same = false
				}
			}
			if same {
				return x
			}
		}
		if y, ok := b.(Fn); ok {
			// function-valued cell holding one of several known functions:
			// keep a tagged choice
			return e.fnChoice(c, x, y)
		}
		if _, ok := b.(FnSel); ok {
			return FnSel{C: c, A: a, B: b}
		}
	case FnSel:
		switch b.(type) {
		case Fn, FnSel:
			return FnSel{C: c, A: a, B: b}
		}
	case Ptr:
		if y, ok := b.(Ptr); ok {
			if sameVal(x, y) {
				return x
			}
			if x.K == pHeap && y.K == pHeap && len(x.Path) == 0 && len(y.Path) == 0 {
				return Ptr{K: pHeap, Ref: ite(c, x.Ref, y.Ref), Obj: x.Obj, Elem: x.Elem}
			}
			if x.K == pElem && y.K == pElem && len(x.Path) == 0 && len(y.Path) == 0 {
				return Ptr{K: pElem, Sl: e.iteVal(c, x.Sl, y.Sl).(Sl), Idx: ite(c, x.Idx, y.Idx), Elem: x.Elem}
			}
		}
	}
	e.abstract(fmt.Sprintf("merge-of-different-shapes(%T,%T)", a, b))
	return Op{e.freshT("mix", SBV64), nil}
}

func sameVal(a, b Val) bool {
	return fmt.Sprintf("%#v", a) == fmt.Sprintf("%#v", b)
}

// eqVal is Go's == on two values of the same type.
func (e *Enc) eqVal(a, b Val) T {
	switch x := a.(type) {
	case Sc:
		if y, ok := b.(Sc); ok && x.Sort == y.Sort {
			return e.eqScalar(x.T, y.T)
		}
	case Str:
		if y, ok := b.(Str); ok {
			return e.seqEq(Sl{Arr: x.Arr, Off: x.Off, Len: x.Len, Cap: x.Len}, Sl{Arr: y.Arr, Off: y.Off, Len: y.Len, Cap: y.Len})
		}
	case Ifc:
		if y, ok := b.(Ifc); ok {
			return eq(x.Id, y.Id)
		}
	case St:
		if y, ok := b.(St); ok && len(x.F) == len(y.F) {
			var cs []T
			for i := range x.F {
				cs = append(cs, e.eqVal(x.F[i], y.F[i]))
			}
			return and(cs...)
		}
	case Sl: // only comparison with nil is legal
		if y, ok := b.(Sl); ok {
			return eq(x.Arr, y.Arr)
		}
	case Ptr, Op, Fn:
		return eq(e.identity(a), e.identity(b))
	}
	e.abstract(fmt.Sprintf("eq-of-different-shapes(%T,%T)", a, b))
	return e.freshT("eq", SBool)
}

func typeKey(t types.Type) string {
	return types.TypeString(t, func(p *types.Package) string { return p.Name() })
}

func pathLeafPrefix(t types.Type, path []int) (string, types.Type) {
	var parts []string
	for _, i := range path {
		switch u := t.Underlying().(type) {
		case *types.Struct:
			parts = append(parts, u.Field(i).Name())
			t = u.Field(i).Type()
		case *types.Array:
			parts = append(parts, fmt.Sprintf("[%d]", i))
			t = u.Elem()
		default:
			panic("bad path")
		}
	}
	return strings.Join(parts, "."), t
}
