package main

import (
	"fmt"
	"go/ast"
	"go/constant"
	"go/token"
	"go/types"
	"sort"
	"strings"

	"golang.org/x/tools/go/ssa"
)

// State is the symbolic program state on one path set.
type State struct {
	cells    map[*ssa.Alloc]Val
	vars     map[string]T // heap field arrays (H|...), element memories (M|...), ghost (G|...), globals (V|...)
	allocRef T            // every live object reference is < allocRef (unsigned)
	allocArr T            // every live array id is < allocArr
}

func (s *State) clone() *State {
	n := &State{cells: make(map[*ssa.Alloc]Val, len(s.cells)), vars: make(map[string]T, len(s.vars)), allocRef: s.allocRef, allocArr: s.allocArr}
	for k, v := range s.cells {
		n.cells[k] = v
	}
	for k, v := range s.vars {
		n.vars[k] = v
	}
	return n
}

type Obligation struct {
	Name   string
	Kind   string // safety | pre | post | frame | loop | lemma | rel | cover
	Func   string
	Upto   int // number of script lines that belong to the query
	Reach  T
	Goal   T
	Expect string // "unsat" (goal valid) or "sat" (cover)
	Pos    string
	Inputs []InputVar // for counterexample extraction
	Extra  []string   // extra script lines (only for this query)
	Env    *Env       // environment of the clause (for known-finding class predicates)
	ClauseText string
	ClauseExpr ast.Expr
	NoFinding  bool
	Group      string // vacuity guards of one clause on several paths: satisfiable on one of them is enough

	// filled by the runner
	Res SolveResult
}

type InputVar struct {
	Name string // Go-level name, e.g. "val", "it.buf"
	Kind string // int | bool | bytes | string
	Bits int
	// SMT expressions to evaluate in the model
	Expr   string // scalar
	Arr    string // bytes: array id
	Off    string
	Len    string
	Cap    string
	MemVar string // memory array term at entry
}

type edgeIn struct {
	cond T
	st   *State
	from *ssa.BasicBlock
}

type frame struct {
	fn      *ssa.Function
	vals    map[ssa.Value]Val
	ins     map[*ssa.BasicBlock][]edgeIn
	bind    []Val
	params  []Val
	rets    []retInfo
	defers  []deferInfo
	top     bool
	con     *Contract
	entrySt *State
	loops   map[*ssa.BasicBlock]*loopInfo
	ncall   map[string]int
	nsafety map[string]int
	name    string
	skipEnter *ssa.BasicBlock
	entryAllocRef T
	ncallAll    map[string]int
	assertsSeen map[string]bool
	hookFrom    *frame    // automatically inlined helper: call-site hooks of this frame are the caller's
	hookPos     token.Pos // position of the call to the helper in the caller (names resolve there)
}

type deferInfo struct {
	call  *ssa.Defer
	reach T
}

type retInfo struct {
	cond T
	vals []Val
	st   *State
}

type loopInfo struct {
	head     *ssa.BasicBlock
	blocks   map[*ssa.BasicBlock]bool
	ordinal  int
	measure  T // value of the decreases measure at the head
	hasMeas  bool
	headSt   *State
	headOld  map[string]Val
	contract *LoopContract
	pos      token.Pos
	nback    int
	unrolling bool     // being unrolled ("loop k unroll n"): back edges are collected, not cut
	collect   []edgeIn // back edges of the current unrolled iteration
	round     int      // current round of the unrolling
}

type Enc struct {
	L          *Loader
	lines      []string
	nfresh     int
	obls       []*Obligation
	abstracted map[string]int
	unrolled   []string // loops executed round by round ("loop k unroll n") with an unwinding obligation
	inlined    map[string]int
	modular    map[string]int
	trusted    map[string]int
	cur        *State
	reach      T
	frames     []*frame
	dry        int
	writesC    map[*ssa.Alloc]bool
	writesV    map[string]bool
	writesFull map[string]bool // written other than at one recorded index
	writesIdx  map[string][]T  // indices (object refs / array ids) written
	freshIdx   map[string]bool // refs / array ids allocated during the dry run
	prefix     string // name prefix for relational copies
	errs       []string
	strConsts  map[string]Str
	globals    map[string]Val
	tier       string
	unrollOK   map[string]int
	depth      int
	decls      []string          // declarations that every query of this encoding includes
	keySorts   map[string]string // every state variable key seen so far
	seqPairs   []seqPair
	seqTerms   []seqAt
	seqAbstract bool // relational mode: sequences are abstract ids, no content quantifiers
	usesSeq    bool
	splitOnCells bool // also case-split on branches that merge different values of local variables
	lockTouched  map[string][]T // lock key -> indices (object references) locked or unlocked so far
	defBody      map[string]string // macro name -> body (for recognising equal branch conditions)
	splitSeen    map[string]bool
	opaqueNames map[string]bool
	factsDone  map[string]bool
	lastFrame  *frame
	skipAssume map[string]bool
	ufDecls    map[string]string
	rel        *relInfo
	seqByID    map[string]seqTerm
	specSorts  map[string]specSort
	opaqueSeqs []opaqueSeqAt
	opaqueReads bool // relational mode: byte readers in contracts are uninterpreted
	noObl      int
	autoDepth  int // nesting of automatically inlined contract-less helpers
	siteCovered map[string]int // hooked call sites: number of reachability covers emitted
	nextHookFrom *frame    // set just before runBody of an automatically inlined helper
	nextHookPos  token.Pos
	loopDry    int
	usesLex    bool
	topName    string
	topFn      *ssa.Function
	inputs     []InputVar
	mapHook    *mapHooks
	concatBytes map[string][]T
	splitConds  []splitCond
}

// splitCond: a condition that selects between memory versions; candidates
// for case splitting when a query is not decided directly.
type splitCond struct {
	c  T
	at int
	hint bool // given by a contract ("loop k split e"): tried first
}

func NewEnc(l *Loader) *Enc {
	e := &Enc{L: l, abstracted: map[string]int{}, inlined: map[string]int{}, modular: map[string]int{}, trusted: map[string]int{},
		strConsts: map[string]Str{}, globals: map[string]Val{}, keySorts: map[string]string{}}
	e.reach = tTrue
	return e
}

func (e *Enc) fr() *frame { return e.frames[len(e.frames)-1] }

func (e *Enc) abstract(what string) {
	if e.dry == 0 {
		e.abstracted[what]++
	}
}

func (e *Enc) emit(line string) { e.lines = append(e.lines, line) }

func (e *Enc) freshName(hint string) string {
	e.nfresh++
	h := sanitize(hint)
	if len(h) > 30 {
		h = h[:30]
	}
	return fmt.Sprintf("%s%s!%d", e.prefix, h, e.nfresh)
}

func (e *Enc) freshT(hint, sort string) T {
	n := e.freshName(hint)
	e.emit(fmt.Sprintf("(declare-const %s %s)", n, sort))
	return T{n, sort}
}

// def names a term (keeps later terms small).
func (e *Enc) def(hint string, t T) T {
	if len(t.S) < 24 && !strings.Contains(t.S, " ") {
		return t
	}
	n := e.freshName(hint)
	e.emit(fmt.Sprintf("(define-fun %s () %s %s)", n, t.Sort, t.S))
	if e.defBody == nil {
		e.defBody = map[string]string{}
	}
	e.defBody[n] = t.S
	if bs, ok := e.concatBytes[t.S]; ok {
		e.concatBytes[n] = bs
	}
	return T{n, t.Sort}
}

// constFor introduces a declared constant equal to t. Unlike def (a macro that
// the solvers expand), it can be used inside quantifier patterns.
func (e *Enc) constFor(hint string, t T) T {
	if !strings.Contains(t.S, " ") && !strings.Contains(t.S, "!") {
		return t
	}
	c := e.freshT(hint, t.Sort)
	e.emit("(assert (= " + c.S + " " + t.S + "))")
	return c
}

func (e *Enc) assume(t T) {
	if t.S == "true" {
		return
	}
	e.emit("(assert " + implies(e.reach, t).S + ")")
}

func (e *Enc) oblige(kind, name string, goal T, pos token.Pos) {
	if e.dry > 0 || (e.noObl > 0 && kind != "rel") {
		return
	}
	if goal.S == "true" {
		// trivially discharged; still counted
	}
	o := &Obligation{Name: e.prefix + name, Kind: kind, Upto: len(e.lines), Reach: e.reach, Goal: goal, Expect: "unsat"}
	if len(e.frames) > 0 {
		o.Func = e.frames[0].name
	}
	if pos.IsValid() {
		p := e.L.Fset.Position(pos)
		o.Pos = fmt.Sprintf("%s:%d", strings.TrimPrefix(p.Filename, e.L.RepoDir+"/"), p.Line)
	}
	e.obls = append(e.obls, o)
}

func (e *Enc) cover(name string, cond T) {
	if e.dry > 0 {
		return
	}
	o := &Obligation{Name: e.prefix + name, Kind: "cover", Upto: len(e.lines), Reach: e.reach, Goal: not(cond), Expect: "sat"}
	if len(e.frames) > 0 {
		o.Func = e.frames[0].name
	}
	e.obls = append(e.obls, o)
}

// coverAntecedent: vacuity guard behind an implication. "A ==> B" holds for
// free where A is impossible, so A must be satisfiable at the point where the
// clause is checked (an undecided guard is only noted).
func (e *Enc) coverAntecedent(name string, env *Env, c Clause) {
	if e.dry > 0 || e.noObl > 0 {
		return
	}
	call, ok := c.Expr.(*ast.CallExpr)
	if !ok || len(call.Args) != 2 {
		return
	}
	id, ok := call.Fun.(*ast.Ident)
	if !ok || id.Name != "implies" {
		return
	}
	nerr := len(e.errs)
	a := e.evalBool(env, Clause{Label: c.Label, Text: c.Text, Expr: call.Args[0], File: c.File, Line: c.Line})
	if len(e.errs) > nerr {
		e.errs = e.errs[:nerr]
		return
	}
	if a.S == "true" {
		return
	}
	e.cover(name+".antecedent", a)
	if n := len(e.obls); n > 0 && e.obls[n-1].Kind == "cover" {
		g := name
		if i := strings.LastIndex(g, "@"); i >= 0 {
			g = g[:i]
		}
		e.obls[n-1].Group = g
	}
}

// ------------------------------------------------------------------ state vars

// immutableKey: a heap field declared immutable (set only by the constructor).
func (e *Enc) declaredImmutable(k string) bool {
	for _, p := range e.L.Contracts.Immutable {
		if strings.HasPrefix(k, p) && (len(k) == len(p) || k[len(p)] == '.') {
			return true
		}
	}
	return false
}

func (e *Enc) immutableKey(k string) bool {
	for _, p := range e.L.Contracts.Stable {
		if strings.HasPrefix(k, p) && (len(k) == len(p) || k[len(p)] == '.') {
			return true
		}
	}
	for _, p := range e.L.Contracts.Immutable {
		if strings.HasPrefix(k, p) && (len(k) == len(p) || k[len(p)] == '.') {
			return true
		}
	}
	return false
}

func (e *Enc) getVar(st *State, key, sort string) T {
	if t, ok := st.vars[key]; ok {
		return t
	}
	e.keySorts[key] = sort
	if _, hv := st.vars["*havoc*"]; hv && !e.immutableKey(key) && !isGhostKey(key) {
		// an unknown callee ran on this path before the variable was first
		// touched: it is no longer at its entry version
		t := e.freshT("hv_"+lastPart(key), sort)
		st.vars[key] = t
		return t
	}
	// entry version, shared by all states of this encoding
	n := e.prefix + "v0!" + sanitize(key)
	t := T{n, sort}
	if _, ok := e.globals["decl:"+n]; !ok {
		e.globals["decl:"+n] = Sc{t}
		e.decls = append(e.decls, fmt.Sprintf("(declare-const %s %s)", n, sort))
		if (strings.HasPrefix(key, "L|") || strings.HasPrefix(key, "R|")) && len(e.frames) > 0 && e.frames[0].con != nil && e.frames[0].con.Goroutine {
			// a goroutine starts with no lock held
			e.decls = append(e.decls, fmt.Sprintf("(assert (= %s ((as const %s) false)))", n, sort))
		}
	}
	return t
}

func (e *Enc) setVar(key string, t T) {
	e.cur.vars[key] = e.def("v_"+lastPart(key), t)
	if e.writesV != nil {
		e.writesV[key] = true
		e.writesFull[key] = true
	}
}

// setVarAt: the update changes the variable at index idx only (a heap field of
// one object, the contents of one array). Loops use the recorded indices to
// keep everything else across their havoc.
func (e *Enc) setVarAt(key string, idx T, t T) {
	e.cur.vars[key] = e.def("v_"+lastPart(key), t)
	if e.writesV != nil {
		e.writesV[key] = true
		e.writesIdx[key] = append(e.writesIdx[key], idx)
	}
}

func lastPart(k string) string {
	if i := strings.LastIndex(k, "|"); i >= 0 {
		return k[i+1:]
	}
	return k
}

func heapKey(obj types.Type, leafPath string) string {
	return "H|" + typeKey(obj) + "|" + leafPath
}

func memKey(elem types.Type, leafName string) string {
	if isByte(elem) {
		return "M|byte"
	}
	return "M|" + typeKey(elem) + "|" + leafName
}

func (e *Enc) byteMem(st *State) T { return e.getVar(st, "M|byte", memSort(SBV8)) }

// memArr is the contents of byte array arr in state st. String constants live
// in reserved array ids and are immutable: they are always read from the
// entry memory, whatever happened to the memory variable since.
func (e *Enc) memArr(st *State, arr T) T {
	if v, ok := litVal(arr); ok && v >= 16 && v < firstDynArr {
		return sel(e.getVar(&State{vars: map[string]T{}}, "M|byte", memSort(SBV8)), arr)
	}
	return sel(e.byteMem(st), arr)
}

// byteAt reads s[i] (no bounds obligation).
func (e *Enc) byteAt(st *State, s Sl, i T) T {
	return sel(e.memArr(st, s.Arr), add(s.Off, i))
}

// ------------------------------------------------------------------ memory access

func (e *Enc) load(p Ptr, t types.Type) Val {
	switch p.K {
	case pCell:
		v, ok := e.cur.cells[p.Cell]
		if !ok {
			v = e.zeroVal(deref(p.Cell.Type()))
		}
		return e.project(v, deref(p.Cell.Type()), p.Path)
	case pHeap:
		prefix, _ := pathLeafPrefix(p.Obj, p.Path)
		ls := leavesOf(t)
		i := 0
		return e.rebuild(t, func() T {
			l := ls[i]
			i++
			h := e.getVar(e.cur, heapKey(p.Obj, joinLeaf(prefix, l.Name)), heapSort(l.Sort))
			return sel(h, p.Ref)
		})
	case pElem:
		prefix, _ := pathLeafPrefix(p.Sl.Elem, p.Path)
		ls := leavesOf(t)
		i := 0
		return e.rebuild(t, func() T {
			l := ls[i]
			i++
			m := e.getVar(e.cur, memKey(p.Sl.Elem, joinLeaf(prefix, l.Name)), memSort(l.Sort))
			return sel(sel(m, p.Sl.Arr), add(p.Sl.Off, p.Idx))
		})
	case pGlobal:
		return e.loadGlobal(p.Glob, t, p.Path)
	}
	e.abstract("load-through-unknown-pointer")
	return e.freshVal(t, "ld")
}

func deref(t types.Type) types.Type {
	return t.Underlying().(*types.Pointer).Elem()
}

func (e *Enc) project(v Val, t types.Type, path []int) Val {
	for _, i := range path {
		s, ok := v.(St)
		if !ok {
			e.abstract("project-non-struct")
			return Op{e.freshT("proj", SBV64), nil}
		}
		v = s.F[i]
	}
	return v
}

func (e *Enc) inject(v Val, path []int, nv Val) Val {
	if len(path) == 0 {
		return nv
	}
	s, ok := v.(St)
	if !ok {
		e.abstract("inject-non-struct")
		return v
	}
	fs := append([]Val(nil), s.F...)
	fs[path[0]] = e.inject(fs[path[0]], path[1:], nv)
	return St{fs, s.Typ}
}

func (e *Enc) storeTo(p Ptr, t types.Type, v Val) {
	switch p.K {
	case pCell:
		old, ok := e.cur.cells[p.Cell]
		if !ok {
			old = e.zeroVal(deref(p.Cell.Type()))
		}
		e.cur.cells[p.Cell] = e.inject(old, p.Path, v)
		if e.writesC != nil {
			e.writesC[p.Cell] = true
		}
	case pHeap:
		prefix, _ := pathLeafPrefix(p.Obj, p.Path)
		ls := leavesOf(t)
		ts := e.flatten(t, v)
		for i, l := range ls {
			key := heapKey(p.Obj, joinLeaf(prefix, l.Name))
			if e.declaredImmutable(key) && e.dry == 0 && len(e.frames) > 0 && !strings.Contains(e.frames[0].name, ".New") {
				// only freshly allocated objects (constructors) may set an immutable field
				e.oblige("frame", e.frames[0].name+"/frame.immutable."+strings.TrimPrefix(key, "H|"), ule(e.frames[0].entryAllocRef, p.Ref), 0)
			}
			h := e.getVar(e.cur, key, heapSort(l.Sort))
			e.setVarAt(key, p.Ref, store(h, p.Ref, ts[i]))
		}
	case pElem:
		prefix, _ := pathLeafPrefix(p.Sl.Elem, p.Path)
		ls := leavesOf(t)
		ts := e.flatten(t, v)
		for i, l := range ls {
			key := memKey(p.Sl.Elem, joinLeaf(prefix, l.Name))
			m := e.getVar(e.cur, key, memSort(l.Sort))
			inner := sel(m, p.Sl.Arr)
			e.setVarAt(key, p.Sl.Arr, store(m, p.Sl.Arr, store(inner, add(p.Sl.Off, p.Idx), ts[i])))
		}
	case pGlobal:
		e.storeGlobal(p.Glob, p.Path, t, v)
	default:
		e.abstract("store-through-unknown-pointer")
		e.havocAll("store-through-unknown-pointer")
	}
}

func globalKey(g *ssa.Global) string { return "V|" + g.Pkg.Pkg.Path() + "." + g.Name() }

func (e *Enc) loadGlobal(g *ssa.Global, t types.Type, path []int) Val {
	key := globalKey(g)
	gt := deref(g.Type())
	if !e.L.globalIsConst(g) {
		// mutable package-level variable: part of the state (one variable per leaf)
		ls := leavesOf(gt)
		i := 0
		v := e.rebuild(gt, func() T {
			l := ls[i]
			i++
			return e.getVar(e.cur, key+"|"+l.Name, l.Sort)
		})
		return e.project(v, gt, path)
	}
	if v, ok := e.globals[key]; ok && v != nil {
		return e.project(v, gt, path)
	}
	var v Val
	switch gt.Underlying().(type) {
	case *types.Interface:
		// package-level sentinel (error) values: distinct non-nil constants
		id := T{e.prefix + "glob!" + sanitize(g.Pkg.Pkg.Name()+"."+g.Name()), SBV64}
		if _, ok := e.globals["decl:"+id.S]; !ok {
			e.globals["decl:"+id.S] = Sc{id}
			e.decls = append(e.decls, fmt.Sprintf("(declare-const %s %s)", id.S, SBV64),
				fmt.Sprintf("(assert (= %s %s))", id.S, bv64(e.L.globalID(g)).S))
		}
		v = Ifc{Id: id}
	default:
		if c, ok := e.L.globalConst(g); ok {
			v = c
		} else {
			e.abstract("global-read:" + key)
			v = e.freshVal(gt, "g_"+g.Name())
		}
	}
	e.globals[key] = v
	return e.project(v, gt, path)
}

func (e *Enc) storeGlobal(g *ssa.Global, path []int, t types.Type, v Val) {
	key := globalKey(g)
	gt := deref(g.Type())
	if len(path) > 0 {
		whole := e.loadGlobal(g, gt, nil)
		v = e.inject(whole, path, v)
	}
	ls := leavesOf(gt)
	ts := e.flatten(gt, v)
	for i, l := range ls {
		e.setVar(key+"|"+l.Name, ts[i])
	}
}

// havocAll forgets every heap/memory variable (unknown callee).
func (e *Enc) havocAll(why string) {
	for k, t := range e.cur.vars {
		if isGhostKey(k) || t.Sort == "" || e.immutableKey(k) {
			continue
		}
		e.cur.vars[k] = e.freshT("hv_"+lastPart(k), t.Sort)
		if e.writesV != nil {
			e.writesV[k] = true
			e.writesFull[k] = true
		}
	}
	for k, srt := range e.keySorts {
		if _, ok := e.cur.vars[k]; !ok && !isGhostKey(k) && !e.immutableKey(k) {
			e.cur.vars[k] = e.freshT("hv_"+lastPart(k), srt)
		}
	}
	// variables not yet known at all are at their entry version: they
	// must be forgotten as well. Mark with a wildcard; getVar consults it.
	e.cur.vars["*havoc*"] = T{why, ""}
	if e.writesV != nil {
		e.writesV["*"] = true
	}
	e.bumpAlloc()
}

func (e *Enc) bumpAlloc() {
	nr := e.freshT("allocRef", SBV64)
	na := e.freshT("allocArr", SBV64)
	e.assume(and(ule(e.cur.allocRef, nr), ule(e.cur.allocArr, na), ule(nr, bv64(1<<62)), ule(na, bv64(1<<62))))
	e.cur.allocRef, e.cur.allocArr = nr, na
}

func (e *Enc) newRef() T {
	r := e.cur.allocRef
	if e.freshIdx != nil {
		e.freshIdx[r.S] = true
	}
	n := e.def("allocRef", add(r, bv64(1)))
	e.cur.allocRef = n
	return r
}

func (e *Enc) newArr() T {
	r := e.cur.allocArr
	if e.freshIdx != nil {
		e.freshIdx[r.S] = true
	}
	n := e.def("allocArr", add(r, bv64(1)))
	e.cur.allocArr = n
	return r
}

// ------------------------------------------------------------------ values of SSA operands

func (e *Enc) val(v ssa.Value) Val {
	switch x := v.(type) {
	case *ssa.Const:
		return e.constVal(x)
	case *ssa.Global:
		return Ptr{K: pGlobal, Glob: x, Elem: deref(x.Type())}
	case *ssa.Function:
		return Fn{F: x}
	case *ssa.Builtin:
		return Op{bv64(0), x.Type()}
	case *ssa.FreeVar:
		f := e.fr()
		for i, fv := range f.fn.FreeVars {
			if fv == x {
				if i < len(f.bind) {
					return f.bind[i]
				}
			}
		}
		e.abstract("unbound-freevar")
		return e.freshVal(x.Type(), "fv")
	}
	f := e.fr()
	if r, ok := f.vals[v]; ok {
		return r
	}
	e.abstract("use-before-def:" + v.Name())
	r := e.freshVal(v.Type(), v.Name())
	f.vals[v] = r
	return r
}

func (e *Enc) constVal(c *ssa.Const) Val {
	t := c.Type()
	if c.Value == nil {
		return e.zeroVal(t)
	}
	b, ok := t.Underlying().(*types.Basic)
	if !ok {
		return e.zeroVal(t)
	}
	switch {
	case b.Info()&types.IsBoolean != 0:
		if constant.BoolVal(c.Value) {
			return Sc{tTrue}
		}
		return Sc{tFalse}
	case b.Info()&types.IsString != 0:
		return e.strConst(constant.StringVal(c.Value))
	case b.Info()&types.IsInteger != 0:
		w := sortWidth(basicSort(b))
		if i, ok := constant.Int64Val(c.Value); ok {
			return Sc{bv(uint64(i), w)}
		}
		u, _ := constant.Uint64Val(c.Value)
		return Sc{bv(u, w)}
	case b.Info()&types.IsFloat != 0:
		// floats are uninterpreted bits; equal constants get equal bits
		f, _ := constant.Float64Val(c.Value)
		return Sc{e.floatConst(f, basicSort(b))}
	}
	e.abstract("const-kind")
	return e.freshVal(t, "const")
}

func (e *Enc) floatConst(f float64, sort string) T {
	key := fmt.Sprintf("flt:%v:%s", f, sort)
	if v, ok := e.globals[key]; ok {
		return v.(Sc).T
	}
	t := e.freshT("fconst", sort)
	e.globals[key] = Sc{t}
	return t
}

// strConst allocates an immutable array holding the constant's bytes.
func (e *Enc) strConst(s string) Str {
	if v, ok := e.strConsts[s]; ok {
		return v
	}
	id := uint64(len(e.strConsts) + 16) // reserved low array ids for constants
	arr := bv64(id)
	v := Str{Arr: arr, Off: bv64(0), Len: bv64(uint64(len(s)))}
	e.strConsts[s] = v
	if len(s) <= 64 {
		m0 := e.getVar(&State{vars: map[string]T{}}, "M|byte", memSort(SBV8))
		for i := 0; i < len(s); i++ {
			e.decls = append(e.decls, fmt.Sprintf("(assert (= (select (select %s %s) %s) %s))", m0.S, arr.S, bv64(uint64(i)).S, bv(uint64(s[i]), 8).S))
		}
	}
	return v
}

// ------------------------------------------------------------------ running a function body

func (e *Enc) rpo(fn *ssa.Function) []*ssa.BasicBlock {
	seen := map[*ssa.BasicBlock]bool{}
	var post []*ssa.BasicBlock
	var dfs func(b *ssa.BasicBlock)
	dfs = func(b *ssa.BasicBlock) {
		seen[b] = true
		// visit successors in reverse so that the RPO keeps source order
		for i := len(b.Succs) - 1; i >= 0; i-- {
			s := b.Succs[i]
			if !seen[s] {
				dfs(s)
			}
		}
		post = append(post, b)
	}
	if len(fn.Blocks) == 0 {
		return nil
	}
	dfs(fn.Blocks[0])
	for i, j := 0, len(post)-1; i < j; i, j = i+1, j-1 {
		post[i], post[j] = post[j], post[i]
	}
	return post
}

func findLoops(fn *ssa.Function) map[*ssa.BasicBlock]*loopInfo {
	loops := map[*ssa.BasicBlock]*loopInfo{}
	for _, b := range fn.Blocks {
		for _, s := range b.Succs {
			if s.Dominates(b) {
				li := loops[s]
				if li == nil {
					li = &loopInfo{head: s, blocks: map[*ssa.BasicBlock]bool{s: true}}
					loops[s] = li
				}
				// natural loop of back edge b->s
				var stack []*ssa.BasicBlock
				if !li.blocks[b] {
					li.blocks[b] = true
					stack = append(stack, b)
				}
				for len(stack) > 0 {
					x := stack[len(stack)-1]
					stack = stack[:len(stack)-1]
					for _, p := range x.Preds {
						if !li.blocks[p] {
							li.blocks[p] = true
							stack = append(stack, p)
						}
					}
				}
			}
		}
	}
	var heads []*ssa.BasicBlock
	for h := range loops {
		heads = append(heads, h)
	}
	sort.Slice(heads, func(i, j int) bool { return heads[i].Index < heads[j].Index })
	for i, h := range heads {
		loops[h].ordinal = i
	}
	return loops
}

// runBody symbolically executes fn from the current state. It returns the
// merged normal-return condition, the merged results and leaves e.cur/e.reach
// at the merged return state.
func (e *Enc) runBody(fn *ssa.Function, args []Val, bind []Val, top bool, con *Contract) (T, []Val) {
	if len(fn.Blocks) == 0 {
		e.abstract("no-body:" + fn.String())
		var rs []Val
		res := fn.Signature.Results()
		for i := 0; i < res.Len(); i++ {
			rs = append(rs, e.freshVal(res.At(i).Type(), "ext"))
		}
		e.havocAll("no-body")
		return e.reach, rs
	}
	if e.depth > 12 {
		panic("inlining too deep: " + fn.String())
	}
	e.depth++
	defer func() { e.depth-- }()
	f := &frame{fn: fn, vals: map[ssa.Value]Val{}, ins: map[*ssa.BasicBlock][]edgeIn{}, bind: bind, params: args, top: top, con: con,
		loops: findLoops(fn), ncall: map[string]int{}, nsafety: map[string]int{}, name: e.L.funcName(fn), ncallAll: map[string]int{}, assertsSeen: map[string]bool{}}
	if p := e.nextHookFrom; p != nil {
		// a contract-less helper executed in place: the caller's call-site
		// hooks (at_call / after_call) keep applying to the calls that an
		// "extract function" edit moved into it; they are named and numbered
		// as in the caller and evaluated with the caller's variables
		e.nextHookFrom = nil
		root := p
		if p.hookFrom != nil {
			root = p.hookFrom
		}
		if root.con != nil && len(root.con.CallAsserts) > 0 {
			f.hookFrom = root
			f.hookPos = e.nextHookPos
			if p.hookFrom != nil {
				f.hookPos = p.hookPos
			}
			f.con = &Contract{CallAsserts: root.con.CallAsserts}
			f.ncallAll = root.ncallAll
			f.assertsSeen = root.assertsSeen
			f.name = root.name
		}
	}
	e.frames = append(e.frames, f)
	defer func() { e.frames = e.frames[:len(e.frames)-1] }()
	if top {
		e.lastFrame = f
	}
	for i, p := range fn.Params {
		if i < len(args) {
			f.vals[p] = args[i]
		} else {
			f.vals[p] = e.freshVal(p.Type(), p.Name())
		}
	}
	if con != nil && con.NoSwallow {
		e.setVar("G|loc_failed", bv64(0))
	}
	f.entrySt = e.cur.clone()
	f.entryAllocRef = e.cur.allocRef
	if con != nil {
		e.bindLoops(f, con)
	}
	order := e.rpo(fn)
	f.ins[fn.Blocks[0]] = []edgeIn{{cond: e.reach, st: e.cur}}
	e.runBlocks(f, order, nil)
	if con != nil && e.dry == 0 && f.hookFrom == nil {
		for _, ca := range con.CallAsserts {
			if !f.assertsSeen[fmt.Sprintf("%s#%d", ca.Callee, ca.N)] {
				e.errs = append(e.errs, fmt.Sprintf("%s: contract-unbound: no call %s#%d for at_call", f.name, ca.Callee, ca.N))
			}
		}
	}
	reach, rets := e.mergeReturns(f)
	if !top && con != nil && len(con.Ensures) > 0 && e.dry == 0 && reach.S != "false" && fn.Syntax() != nil {
		// a closure expanded in place keeps its own postconditions: they are
		// obligations at its return (over its results, the captured variables
		// and, with old(), the state at its entry)
		env := e.cellEnv(f, fn.Syntax().End()-1, e.cur.clone())
		names := e.resultNames(con, fn.Signature, fn)
		for i, n := range names {
			if i < len(rets) {
				env.names[n] = TV{V: rets[i], Ty: fn.Signature.Results().At(i).Type()}
			}
		}
		for _, c := range con.Ensures {
			n0 := len(e.obls)
			label := strings.TrimSuffix(c.Label, "!")
			g := e.evalBool(env, c)
			e.oblige("post", fmt.Sprintf("%s/%s.post.%s", e.frames[0].name, f.name, label), g, fn.Pos())
			if len(e.obls) > n0 {
				e.obls[n0].Env = env
				e.obls[n0].ClauseText = c.Text
			}
		}
	}
	return reach, rets
}

func (e *Enc) mergeReturns(f *frame) (T, []Val) {
	if len(f.rets) == 0 {
		e.reach = tFalse
		return tFalse, nil
	}
	var ins []edgeIn
	for _, r := range f.rets {
		ins = append(ins, edgeIn{cond: r.cond, st: r.st})
	}
	reach, st := e.mergeStates(ins, "ret")
	n := len(f.rets[0].vals)
	out := make([]Val, n)
	for i := 0; i < n; i++ {
		v := f.rets[len(f.rets)-1].vals[i]
		for j := len(f.rets) - 2; j >= 0; j-- {
			v = e.iteVal(f.rets[j].cond, f.rets[j].vals[i], v)
		}
		out[i] = e.nameVal(v, "ret")
	}
	e.cur = st
	e.reach = reach
	return reach, out
}

// nameVal gives names to large leaf terms.
func (e *Enc) nameVal(v Val, hint string) Val {
	switch x := v.(type) {
	case Sc:
		return Sc{e.def(hint, x.T)}
	case Sl:
		return Sl{e.def(hint+"_arr", x.Arr), e.def(hint+"_off", x.Off), e.def(hint+"_len", x.Len), e.def(hint+"_cap", x.Cap), x.Elem}
	case Str:
		return Str{e.def(hint+"_arr", x.Arr), e.def(hint+"_off", x.Off), e.def(hint+"_len", x.Len)}
	case St:
		fs := make([]Val, len(x.F))
		for i := range fs {
			fs[i] = e.nameVal(x.F[i], hint)
		}
		return St{fs, x.Typ}
	case Ifc:
		x.Id = e.def(hint+"_ifc", x.Id)
		return x
	case Op:
		return Op{e.def(hint+"_op", x.Id), x.Typ}
	case Ptr:
		if x.K == pHeap || x.K == pOpaque {
			x.Ref = e.def(hint+"_ref", x.Ref)
		}
		return x
	case Tup:
		vs := make([]Val, len(x.V))
		for i := range vs {
			vs[i] = e.nameVal(x.V[i], hint)
		}
		return Tup{vs}
	}
	return v
}

func (e *Enc) noteSplit(c T) {
	if e.dry > 0 || c.S == "true" || c.S == "false" {
		return
	}
	for _, sc := range e.splitConds {
		if sc.c.S == c.S {
			return
		}
	}
	e.splitConds = append(e.splitConds, splitCond{c: c, at: len(e.lines)})
}

func (e *Enc) mergeStates(ins []edgeIn, hint string) (T, *State) {
	if len(ins) == 1 {
		return ins[0].cond, ins[0].st.clone()
	}
	var conds []T
	for _, in := range ins {
		conds = append(conds, in.cond)
	}
	reach := e.def("reach_"+hint, or(conds...))
	out := &State{cells: map[*ssa.Alloc]Val{}, vars: map[string]T{}}
	// cells
	keys := map[*ssa.Alloc]bool{}
	for _, in := range ins {
		for k := range in.st.cells {
			keys[k] = true
		}
	}
	var ks []*ssa.Alloc
	for k := range keys {
		ks = append(ks, k)
	}
	sort.Slice(ks, func(i, j int) bool { return ks[i].Pos() < ks[j].Pos() || (ks[i].Pos() == ks[j].Pos() && ks[i].Name() < ks[j].Name()) })
	for _, k := range ks {
		get := func(st *State) Val {
			if v, ok := st.cells[k]; ok {
				return v
			}
			return e.zeroVal(deref(k.Type()))
		}
		v := get(ins[len(ins)-1].st)
		all := true
		for i := len(ins) - 2; i >= 0; i-- {
			w := get(ins[i].st)
			if !sameVal(v, w) {
				all = false
			}
			v = e.iteVal(ins[i].cond, w, v)
		}
		if !all {
			v = e.nameVal(v, "m_"+k.Comment)
		}
		out.cells[k] = v
	}
	// vars
	vkeys := map[string]string{}
	havoc := false
	for _, in := range ins {
		for k, t := range in.st.vars {
			if k == "*havoc*" {
				havoc = true
				continue
			}
			vkeys[k] = t.Sort
		}
	}
	var vs []string
	for k := range vkeys {
		vs = append(vs, k)
	}
	sort.Strings(vs)
	for _, k := range vs {
		srt := vkeys[k]
		v := e.getVar(ins[len(ins)-1].st, k, srt)
		for i := len(ins) - 2; i >= 0; i-- {
			w := e.getVar(ins[i].st, k, srt)
			v = ite(ins[i].cond, w, v)
		}
		nv := e.def("m_"+lastPart(k), v)
		if nv.S != v.S || strings.HasPrefix(v.S, "(ite") {
			for i := 0; i < len(ins)-1; i++ {
				e.noteSplit(ins[i].cond)
			}
		}
		out.vars[k] = nv
	}
	if havoc {
		// Some path called an unknown function: a variable first touched after
		// the join cannot be assumed to be at its entry version any more.
		out.vars["*havoc*"] = T{"merge", ""}
	}
	ar := ins[len(ins)-1].st.allocRef
	aa := ins[len(ins)-1].st.allocArr
	for i := len(ins) - 2; i >= 0; i-- {
		ar = ite(ins[i].cond, ins[i].st.allocRef, ar)
		aa = ite(ins[i].cond, ins[i].st.allocArr, aa)
	}
	out.allocRef = e.def("allocRef", ar)
	out.allocArr = e.def("allocArr", aa)
	return reach, out
}

// runBlocks processes the given blocks (in RPO). If within != nil only blocks
// of that set are processed (dry run of a loop body).
func (e *Enc) runBlocks(f *frame, order []*ssa.BasicBlock, within map[*ssa.BasicBlock]bool) {
	for _, b := range order {
		if within != nil && !within[b] {
			continue
		}
		ins := f.ins[b]
		if len(ins) == 0 {
			continue // unreachable (or only reachable through cut edges)
		}
		delete(f.ins, b)
		if li := f.loops[b]; li != nil && !li.unrolling && li.contract != nil && li.contract.Unroll > 0 && e.dry == 0 {
			e.unrollLoop(f, li, order, ins)
			continue
		}
		reach, st := e.mergeStates(ins, fmt.Sprintf("b%d", b.Index))
		e.cur, e.reach = st, reach
		if li := f.loops[b]; li != nil && !li.unrolling {
			e.enterLoop(f, li, order)
		} else if li != nil && li.unrolling && e.dry == 0 {
			e.unrollHead(f, li)
		}
		// phis first
		for _, ins2 := range b.Instrs {
			phi, ok := ins2.(*ssa.Phi)
			if !ok {
				break
			}
			var v Val
			first := true
			for i, p := range b.Preds {
				var c T
				found := false
				for _, in := range ins {
					if in.from == p {
						c, found = in.cond, true
					}
				}
				if !found {
					continue
				}
				pv := e.val(phi.Edges[i])
				if first {
					v, first = pv, false
				} else {
					v = e.iteVal(c, pv, v)
				}
			}
			if first {
				v = e.freshVal(phi.Type(), "phi")
			}
			f.vals[phi] = e.nameVal(v, "phi")
		}
		for _, in := range b.Instrs {
			if _, ok := in.(*ssa.Phi); ok {
				continue
			}
			if e.reach.S == "false" {
				break
			}
			e.instr(f, b, in)
		}
	}
}

func (e *Enc) addEdge(f *frame, from, to *ssa.BasicBlock, cond T) {
	if to.Dominates(from) && f.loops[to] != nil && f.loops[to].unrolling {
		li := f.loops[to]
		li.collect = append(li.collect, edgeIn{cond: cond, st: e.cur.clone(), from: from})
		return
	}
	if to.Dominates(from) && f.loops[to] != nil {
		// back edge: check the invariant, cut
		saved := e.reach
		e.reach = cond
		e.backEdge(f, f.loops[to], from)
		e.reach = saved
		return
	}
	f.ins[to] = append(f.ins[to], edgeIn{cond: cond, st: e.cur.clone(), from: from})
}

func (e *Enc) instr(f *frame, b *ssa.BasicBlock, in ssa.Instruction) {
	switch x := in.(type) {
	case *ssa.DebugRef:
	case *ssa.Alloc:
		t := deref(x.Type())
		if at, isArr := t.Underlying().(*types.Array); isArr {
			// arrays live in element memory so that they can be sliced
			arr := e.newArr()
			n := bv64(uint64(at.Len()))
			if isByte(at.Elem()) {
				m := e.byteMem(e.cur)
				e.setVarAt("M|byte", arr, store(m, arr, T{"((as const " + SArr + ") #x00)", SArr}))
			} else {
				for _, l := range leavesOf(at.Elem()) {
					key := memKey(at.Elem(), l.Name)
					m := e.getVar(e.cur, key, memSort(l.Sort))
					zero := "false"
					if l.Sort != SBool {
						zero = bv(0, sortWidth(l.Sort)).S
					}
					e.setVarAt(key, arr, store(m, arr, T{"((as const (Array (_ BitVec 64) " + l.Sort + ")) " + zero + ")", "(Array (_ BitVec 64) " + l.Sort + ")"}))
				}
			}
			f.vals[x] = Ptr{K: pArr, Sl: Sl{Arr: arr, Off: bv64(0), Len: n, Cap: n, Elem: at.Elem()}, Elem: t}
			return
		}
		if x.Heap && !e.L.privateAlloc(x) {
			ref := e.newRef()
			p := Ptr{K: pHeap, Ref: ref, Obj: t, Elem: t}
			f.vals[x] = p
			e.storeTo(p, t, e.zeroVal(t))
		} else {
			e.cur.cells[x] = e.zeroVal(t)
			f.vals[x] = Ptr{K: pCell, Cell: x, Elem: t}
		}
	case *ssa.Store:
		p, ok := e.val(x.Addr).(Ptr)
		if !ok {
			e.abstract("store-addr-shape")
			e.havocAll("store")
			return
		}
		if p.K == pHeap {
			e.nilCheck(f, p, x.Pos())
		}
		e.guardCheck(p, x.Val.Type(), true, x.Pos())
		e.storeTo(p, x.Val.Type(), e.val(x.Val))
	case *ssa.UnOp:
		f.vals[x] = e.unop(f, x)
	case *ssa.BinOp:
		f.vals[x] = e.nameVal(e.binop(f, x), x.Name())
	case *ssa.FieldAddr:
		p, ok := e.val(x.X).(Ptr)
		st := deref(x.X.Type())
		ft := st.Underlying().(*types.Struct).Field(x.Field).Type()
		if !ok || p.K == pOpaque || (p.K == pElem && isByte(p.Sl.Elem)) {
			e.abstract("fieldaddr-of-unknown-pointer")
			f.vals[x] = Ptr{K: pOpaque, Ref: e.freshT("p", SBV64), Elem: ft}
			return
		}
		np := p
		np.Path = append(append([]int(nil), p.Path...), x.Field)
		np.Elem = ft
		f.vals[x] = np
	case *ssa.Field:
		s, ok := e.val(x.X).(St)
		if !ok {
			e.abstract("field-of-non-struct")
			f.vals[x] = e.freshVal(x.Type(), x.Name())
			return
		}
		f.vals[x] = s.F[x.Field]
	case *ssa.IndexAddr:
		e.indexAddr(f, x)
	case *ssa.Index:
		e.index(f, x)
	case *ssa.Slice:
		e.slice(f, x)
	case *ssa.Call:
		r := e.call(f, x.Common(), x, x.Pos())
		if r != nil {
			f.vals[x] = r
		}
		if f.con != nil && f.con.NoSwallow && r != nil {
			e.trackFailure(f, x, r)
		}
	case *ssa.Convert:
		f.vals[x] = e.convert(e.val(x.X), x.X.Type(), x.Type())
	case *ssa.ChangeType:
		f.vals[x] = e.val(x.X)
	case *ssa.ChangeInterface:
		f.vals[x] = e.val(x.X)
	case *ssa.MakeInterface:
		v := e.val(x.X)
		id := e.freshT("ifc", SBV64)
		e.assume(not(eq(id, bv64(0))))
		f.vals[x] = Ifc{Id: id, Dyn: v, DynT: x.X.Type()}
	case *ssa.TypeAssert:
		e.typeAssert(f, x)
	case *ssa.Extract:
		t, ok := e.val(x.Tuple).(Tup)
		if !ok || x.Index >= len(t.V) {
			f.vals[x] = e.freshVal(x.Type(), x.Name())
			return
		}
		f.vals[x] = t.V[x.Index]
	case *ssa.MakeSlice:
		e.makeSlice(f, x)
	case *ssa.MakeMap, *ssa.MakeChan:
		id := e.freshT("mk", SBV64)
		e.assume(not(eq(id, bv64(0))))
		f.vals[x.(ssa.Value)] = Op{id, x.(ssa.Value).Type()}
	case *ssa.MakeClosure:
		var bs []Val
		for _, bnd := range x.Bindings {
			bs = append(bs, e.val(bnd))
		}
		f.vals[x] = Fn{F: x.Fn.(*ssa.Function), Bind: bs}
	case *ssa.Lookup:
		e.lookup(f, x)
	case *ssa.MapUpdate:
		e.mapUpdate(f, x)
	case *ssa.Range:
		f.vals[x] = Op{e.freshT("range", SBV64), x.Type()}
	case *ssa.Next:
		f.vals[x] = e.freshVal(x.Type(), x.Name())
	case *ssa.Select:
		e.abstract("select")
		f.vals[x] = e.freshVal(x.Type(), x.Name())
	case *ssa.Send:
		e.hookChanOp(f, "send", x.Chan, x.Pos())
	case *ssa.Go:
		e.spawn(f, x)
	case *ssa.Defer:
		f.defers = append(f.defers, deferInfo{call: x, reach: e.reach})
	case *ssa.RunDefers:
		e.runDefers(f)
	case *ssa.Panic:
		if f.top && f.con != nil && f.con.NoPanic {
			n := f.nsafety["panic"]
			f.nsafety["panic"]++
			e.oblige("safety", fmt.Sprintf("%s/safety.panic#%d", f.name, n), tFalse, x.Pos())
		} else if !f.top {
			// panic inside an inlined callee: the caller's obligation
			if t := e.frames[0]; t.con != nil && t.con.NoPanic {
				n := t.nsafety["panic"]
				t.nsafety["panic"]++
				e.oblige("safety", fmt.Sprintf("%s/safety.panic#%d", t.name, n), tFalse, x.Pos())
			}
		}
		e.reach = tFalse
	case *ssa.If:
		c := e.scalar(e.val(x.Cond), SBool)
		c = e.def("c", c)
		if e.splitOnCells && e.dry == 0 {
			// branch conditions are case-split candidates; a condition tested
			// twice (same expression after expanding macros) counts once
			if e.splitSeen == nil {
				e.splitSeen = map[string]bool{}
			}
			key := e.expandDefs(c.S, 6)
			if !e.splitSeen[key] {
				e.splitSeen[key] = true
				e.noteSplit(c)
			}
		}
		e.addEdge(f, b, b.Succs[0], e.def("e", and(e.reach, c)))
		e.addEdge(f, b, b.Succs[1], e.def("e", and(e.reach, not(c))))
	case *ssa.Jump:
		e.addEdge(f, b, b.Succs[0], e.reach)
	case *ssa.Return:
		var vs []Val
		for _, r := range x.Results {
			vs = append(vs, e.val(r))
		}
		if f.con != nil && f.con.NoSwallow && len(vs) > 0 && e.dry == 0 {
			if errv, ok := vs[len(vs)-1].(Ifc); ok {
				key := "G|loc_failed"
				failed := e.getVar(e.cur, key, SBV64)
				n := f.nsafety["noswallow"]
				f.nsafety["noswallow"]++
				e.oblige("post", fmt.Sprintf("%s/%s.noswallow#%d", e.frames[0].name, f.name, n), implies(not(eq(failed, bv64(0))), not(eq(errv.Id, bv64(0)))), x.Pos())
			}
		}
		f.rets = append(f.rets, retInfo{cond: e.reach, vals: vs, st: e.cur.clone()})
	case *ssa.SliceToArrayPointer, *ssa.MultiConvert:
		e.abstract(fmt.Sprintf("%T", in))
		f.vals[in.(ssa.Value)] = e.freshVal(in.(ssa.Value).Type(), "x")
	default:
		e.abstract(fmt.Sprintf("instr:%T", in))
		if v, ok := in.(ssa.Value); ok {
			f.vals[v] = e.freshVal(v.Type(), v.Name())
		}
	}
}

// trackFailure: a callee returned an error value; remember whether it was non-nil.
func (e *Enc) trackFailure(f *frame, call *ssa.Call, r Val) {
	res := call.Common().Signature().Results()
	if res.Len() == 0 {
		return
	}
	last := res.At(res.Len() - 1).Type()
	if n, ok := last.(*types.Named); !ok || n.Obj().Name() != "error" || n.Obj().Pkg() != nil {
		return
	}
	if f.con != nil && len(f.con.NoSwallowExcept) > 0 {
		// "noswallow except f, g": errors of these callees are handled by
		// design (retry loops, tolerated EOF / not-found)
		name := ""
		if sc := call.Common().StaticCallee(); sc != nil {
			name = e.L.funcName(sc)
		} else if call.Common().IsInvoke() {
			name = typeKey(call.Common().Value.Type()) + "." + call.Common().Method.Name()
		}
		for _, x := range f.con.NoSwallowExcept {
			if x == name {
				return
			}
		}
	}
	var errv Val = r
	if t, ok := r.(Tup); ok {
		errv = t.V[len(t.V)-1]
	}
	i, ok := errv.(Ifc)
	if !ok {
		return
	}
	key := "G|loc_failed"
	failed := e.getVar(e.cur, key, SBV64)
	e.setVar(key, ite(eq(i.Id, bv64(0)), failed, bv64(1)))
}

func (e *Enc) nilCheck(f *frame, p Ptr, pos token.Pos) {
	// Receivers and pointer parameters are assumed non-nil (DESIGN 4.3);
	// execution continues only when the pointer is not nil.
	e.assume(not(eq(p.Ref, bv64(0))))
}

func (e *Enc) safety(f *frame, kind string, goal T, pos token.Pos) {
	top := e.frames[0]
	if top.con != nil && top.con.NoPanic {
		n := top.nsafety[kind]
		top.nsafety[kind]++
		e.oblige("safety", fmt.Sprintf("%s/safety.%s#%d", top.name, kind, n), goal, pos)
	}
	e.assume(goal)
}

func (e *Enc) unop(f *frame, x *ssa.UnOp) Val {
	switch x.Op {
	case token.MUL:
		p, ok := e.val(x.X).(Ptr)
		if !ok {
			e.abstract("load-addr-shape")
			return e.freshVal(x.Type(), x.Name())
		}
		if p.K == pHeap {
			e.nilCheck(f, p, x.Pos())
		}
		e.guardCheck(p, x.Type(), false, x.Pos())
		v := e.load(p, x.Type())
		if p.K == pHeap || p.K == pElem {
			v = e.nameVal(v, x.Name())
			e.assumeLoaded(x.Type(), v)
		}
		return v
	case token.NOT:
		return Sc{not(e.scalar(e.val(x.X), SBool))}
	case token.SUB:
		s := e.val(x.X).(Sc)
		if isFloat(x.Type()) {
			e.abstract("float-op")
			return Sc{e.freshT("fneg", s.Sort)}
		}
		return Sc{app(s.Sort, "bvneg", s.T)}
	case token.XOR:
		s := e.val(x.X).(Sc)
		return Sc{app(s.Sort, "bvnot", s.T)}
	case token.ARROW:
		e.hookChanOp(f, "recv", x.X, x.Pos())
		// ghost_loc_lastRecvOk: did the last receive deliver a value (1) or
		// report a closed channel (0)? A plain receive cannot tell: 1.
		if x.CommaOk {
			if tt, isT := x.Type().(*types.Tuple); isT && tt.Len() == 2 {
				ok := e.freshT(x.Name()+"_ok", SBool)
				v := Tup{[]Val{e.freshVal(tt.At(0).Type(), x.Name()), Sc{ok}}}
				e.setVar("G|loc_lastRecvOk", ite(ok, bv64(1), bv64(0)))
				return v
			}
		}
		e.setVar("G|loc_lastRecvOk", bv64(1))
		return e.freshVal(x.Type(), x.Name())
	}
	e.abstract("unop:" + x.Op.String())
	return e.freshVal(x.Type(), x.Name())
}

// assumeLoaded: values read from the heap satisfy the type invariants and are
// allocated (the heap is closed under allocation).
func (e *Enc) assumeLoaded(t types.Type, v Val) {
	switch x := v.(type) {
	case Sl:
		e.assume(and(e.slInv(x), ult(x.Arr, e.cur.allocArr)))
	case Str:
		e.assume(and(ule(x.Len, bv64(1<<48)), ule(x.Off, bv64(1<<48)), ult(x.Arr, e.cur.allocArr)))
	case Ptr:
		if x.K == pHeap && len(x.Path) == 0 {
			e.assume(ult(x.Ref, e.cur.allocRef))
		}
	case St:
		switch u := t.Underlying().(type) {
		case *types.Struct:
			for i, fv := range x.F {
				e.assumeLoaded(u.Field(i).Type(), fv)
			}
		case *types.Array:
			for _, fv := range x.F {
				e.assumeLoaded(u.Elem(), fv)
			}
		}
	}
}

func (e *Enc) binop(f *frame, x *ssa.BinOp) Val {
	a, b := e.val(x.X), e.val(x.Y)
	t := x.X.Type()
	switch x.Op {
	case token.EQL:
		return Sc{e.eqVal(a, b)}
	case token.NEQ:
		return Sc{not(e.eqVal(a, b))}
	}
	if _, isStr := a.(Str); isStr {
		if x.Op == token.ADD {
			return e.strConcat(a.(Str), b.(Str))
		}
		e.abstract("string-compare")
		return Sc{e.freshT("strcmp", SBool)}
	}
	sa, ok1 := a.(Sc)
	sb, ok2 := b.(Sc)
	if !ok1 || !ok2 {
		e.abstract("binop-shape")
		return e.freshVal(x.Type(), x.Name())
	}
	if isFloat(t) {
		e.abstract("float-op")
		return e.freshVal(x.Type(), x.Name())
	}
	if sa.Sort == SBool {
		switch x.Op {
		case token.AND, token.LAND:
			return Sc{and(sa.T, sb.T)}
		case token.OR, token.LOR:
			return Sc{or(sa.T, sb.T)}
		}
	}
	signed := isSigned(t)
	w := sortWidth(sa.Sort)
	switch x.Op {
	case token.ADD:
		return Sc{add(sa.T, sb.T)}
	case token.SUB:
		return Sc{sub(sa.T, sb.T)}
	case token.MUL:
		return Sc{bvbin("bvmul", sa.T, sb.T)}
	case token.QUO, token.REM:
		e.safety(f, "div", not(eq(sb.T, bv(0, w))), x.Pos())
		op := map[bool]map[token.Token]string{true: {token.QUO: "bvsdiv", token.REM: "bvsrem"}, false: {token.QUO: "bvudiv", token.REM: "bvurem"}}[signed][x.Op]
		return Sc{bvbin(op, sa.T, sb.T)}
	case token.AND:
		return Sc{bvbin("bvand", sa.T, sb.T)}
	case token.OR:
		return Sc{bvbin("bvor", sa.T, sb.T)}
	case token.XOR:
		return Sc{bvbin("bvxor", sa.T, sb.T)}
	case token.AND_NOT:
		return Sc{bvbin("bvand", sa.T, app(sb.Sort, "bvnot", sb.T))}
	case token.SHL, token.SHR:
		// shift count may have a different width; Go: count >= width gives 0 (or sign fill)
		cnt := sb.T
		cw := sortWidth(cnt.Sort)
		if isSigned(x.Y.Type()) {
			e.safety(f, "shift", not(slt(cnt, bv(0, cw))), x.Pos())
		}
		var c2 T
		if cw < w {
			c2 = zext(cnt, w)
		} else if cw > w {
			// saturate
			c2 = ite(ult(cnt, bv(uint64(w), cw)), extract(cnt, w-1, 0), bv(uint64(w), w))
		} else {
			c2 = cnt
		}
		op := "bvshl"
		if x.Op == token.SHR {
			op = "bvlshr"
			if signed {
				op = "bvashr"
			}
		}
		return Sc{bvbin(op, sa.T, c2)}
	case token.LSS, token.LEQ, token.GTR, token.GEQ:
		ops := map[bool]map[token.Token]string{
			true:  {token.LSS: "bvslt", token.LEQ: "bvsle", token.GTR: "bvsgt", token.GEQ: "bvsge"},
			false: {token.LSS: "bvult", token.LEQ: "bvule", token.GTR: "bvugt", token.GEQ: "bvuge"}}
		return Sc{bvcmp(ops[signed][x.Op], sa.T, sb.T)}
	}
	e.abstract("binop:" + x.Op.String())
	return e.freshVal(x.Type(), x.Name())
}

func (e *Enc) convert(v Val, from, to types.Type) Val {
	fu, tu := from.Underlying(), to.Underlying()
	fb, fok := fu.(*types.Basic)
	tb, tok := tu.(*types.Basic)
	if fok && tok {
		if fb.Info()&types.IsString != 0 && tb.Info()&types.IsString != 0 {
			return v
		}
		if fb.Info()&types.IsInteger != 0 && tb.Info()&types.IsInteger != 0 {
			s := e.scalar(v, basicSort(fb))
			w := sortWidth(basicSort(tb))
			if isSigned(from) {
				return Sc{sext(s, w)}
			}
			return Sc{zext(s, w)}
		}
		if fb.Info()&types.IsFloat != 0 || tb.Info()&types.IsFloat != 0 {
			e.abstract("float-conversion")
			return Sc{e.freshT("fconv", basicSort(tb))}
		}
		if fb.Info()&types.IsInteger != 0 && tb.Info()&types.IsString != 0 {
			e.abstract("int-to-string")
			return e.freshVal(to, "str")
		}
	}
	// []byte <-> string
	if fs, ok := fu.(*types.Slice); ok && tok && tb.Info()&types.IsString != 0 && isByte(fs.Elem()) {
		return e.bytesToString(v.(Sl))
	}
	if ts, ok := tu.(*types.Slice); ok && fok && fb.Info()&types.IsString != 0 && isByte(ts.Elem()) {
		return e.stringToBytes(v.(Str))
	}
	if _, ok := tu.(*types.Pointer); ok {
		return v
	}
	e.abstract("convert:" + typeKey(from) + "->" + typeKey(to))
	return e.freshVal(to, "conv")
}

// bytesToString copies the bytes into a fresh immutable array.
func (e *Enc) bytesToString(s Sl) Val {
	arr := e.newArr()
	m := e.byteMem(e.cur)
	// fresh array content: forall i < len. new[i] = old[off+i]
	na := e.freshT("strdata", SArr)
	i := "(i (_ BitVec 64))"
	e.assume(T{fmt.Sprintf("(forall (%s) (! (=> (bvult i %s) (= (select %s i) (select (select %s %s) (bvadd %s i)))) :pattern ((select %s i))))",
		i, s.Len.S, na.S, m.S, s.Arr.S, s.Off.S, na.S), SBool})
	e.setVarAt("M|byte", arr, store(m, arr, na))
	return Str{Arr: arr, Off: bv64(0), Len: s.Len}
}

func (e *Enc) stringToBytes(s Str) Val {
	arr := e.newArr()
	m := e.byteMem(e.cur)
	na := e.freshT("bytedata", SArr)
	i := "(i (_ BitVec 64))"
	e.assume(T{fmt.Sprintf("(forall (%s) (! (=> (bvult i %s) (= (select %s i) (select (select %s %s) (bvadd %s i)))) :pattern ((select %s i))))",
		i, s.Len.S, na.S, m.S, s.Arr.S, s.Off.S, na.S), SBool})
	e.setVarAt("M|byte", arr, store(m, arr, na))
	return Sl{Arr: arr, Off: bv64(0), Len: s.Len, Cap: s.Len, Elem: types.Typ[types.Uint8]}
}

func (e *Enc) strConcat(a, b Str) Val {
	arr := e.newArr()
	m := e.byteMem(e.cur)
	na := e.freshT("catdata", SArr)
	i := "(i (_ BitVec 64))"
	srcA := e.constFor("cata", e.memArr(e.cur, a.Arr))
	srcB := e.constFor("catb", e.memArr(e.cur, b.Arr))
	e.assume(T{fmt.Sprintf("(forall (%s) (! (=> (bvult i %s) (= (select %s i) (select %s (bvadd %s i)))) :pattern ((select %s i))))",
		i, a.Len.S, na.S, srcA.S, a.Off.S, na.S), SBool})
	e.assume(T{fmt.Sprintf("(forall (%s) (! (=> (bvult i %s) (= (select %s (bvadd %s i)) (select %s (bvadd %s i)))) :pattern ((select %s (bvadd %s i)))))",
		i, b.Len.S, na.S, a.Len.S, srcB.S, b.Off.S, na.S, a.Len.S), SBool})
	// a constant prefix is known byte by byte (no quantifier instantiation needed)
	if k, ok := litVal(a.Len); ok && k <= 32 {
		for j := uint64(0); j < k; j++ {
			e.assume(eq(sel(na, bv64(j)), sel(srcA, add(a.Off, bv64(j)))))
		}
	}
	e.setVarAt("M|byte", arr, store(m, arr, na))
	return Str{Arr: arr, Off: bv64(0), Len: e.def("catlen", add(a.Len, b.Len))}
}

func (e *Enc) indexAddr(f *frame, x *ssa.IndexAddr) {
	idx := e.idx64(e.val(x.Index), x.Index.Type())
	switch base := e.val(x.X).(type) {
	case Sl:
		e.safety(f, "index", ult(idx, base.Len), x.Pos())
		f.vals[x] = Ptr{K: pElem, Sl: base, Idx: idx, Elem: base.Elem}
	case Ptr:
		if base.K == pArr {
			e.safety(f, "index", ult(idx, base.Sl.Len), x.Pos())
			f.vals[x] = Ptr{K: pElem, Sl: base.Sl, Idx: idx, Elem: base.Sl.Elem}
			return
		}
		// pointer to array
		at, ok := deref(x.X.Type()).Underlying().(*types.Array)
		if ok && at.Len() <= maxArrayFlatten {
			if c, isC := x.Index.(*ssa.Const); isC {
				i, _ := constant.Int64Val(c.Value)
				np := base
				np.Path = append(append([]int(nil), base.Path...), int(i))
				np.Elem = at.Elem()
				f.vals[x] = np
				return
			}
		}
		e.abstract("indexaddr-array-symbolic")
		f.vals[x] = Ptr{K: pOpaque, Ref: e.freshT("p", SBV64), Elem: deref(x.Type())}
	default:
		e.abstract("indexaddr-shape")
		f.vals[x] = Ptr{K: pOpaque, Ref: e.freshT("p", SBV64), Elem: deref(x.Type())}
	}
}

func (e *Enc) idx64(v Val, t types.Type) T {
	s, ok := v.(Sc)
	if !ok {
		return e.freshT("idx", SBV64)
	}
	if isSigned(t) {
		return sext(s.T, 64)
	}
	return zext(s.T, 64)
}

func (e *Enc) index(f *frame, x *ssa.Index) {
	idx := e.idx64(e.val(x.Index), x.Index.Type())
	switch base := e.val(x.X).(type) {
	case Str:
		e.safety(f, "index", ult(idx, base.Len), x.Pos())
		f.vals[x] = Sc{e.def(x.Name(), sel(sel(e.byteMem(e.cur), base.Arr), add(base.Off, idx)))}
	case St:
		if c, isC := x.Index.(*ssa.Const); isC {
			i, _ := constant.Int64Val(c.Value)
			f.vals[x] = base.F[i]
			return
		}
		e.abstract("index-array-symbolic")
		f.vals[x] = e.freshVal(x.Type(), x.Name())
	default:
		e.abstract("index-shape")
		f.vals[x] = e.freshVal(x.Type(), x.Name())
	}
}

func (e *Enc) slice(f *frame, x *ssa.Slice) {
	get := func(v ssa.Value, def T) T {
		if v == nil {
			return def
		}
		return e.idx64(e.val(v), v.Type())
	}
	bv0 := e.val(x.X)
	if p, ok := bv0.(Ptr); ok && p.K == pArr {
		bv0 = p.Sl
	}
	switch base := bv0.(type) {
	case Sl:
		lo := get(x.Low, bv64(0))
		hi := get(x.High, base.Len)
		mx := get(x.Max, base.Cap)
		// Go: 0 <= lo <= hi <= max <= cap(base)
		e.safety(f, "slice", and(ule(lo, hi), ule(hi, mx), ule(mx, base.Cap)), x.Pos())
		f.vals[x] = e.nameVal(Sl{Arr: base.Arr, Off: add(base.Off, lo), Len: sub(hi, lo), Cap: sub(mx, lo), Elem: base.Elem}, x.Name())
	case Str:
		lo := get(x.Low, bv64(0))
		hi := get(x.High, base.Len)
		e.safety(f, "slice", and(ule(lo, hi), ule(hi, base.Len)), x.Pos())
		f.vals[x] = e.nameVal(Str{Arr: base.Arr, Off: add(base.Off, lo), Len: sub(hi, lo)}, x.Name())
	default:
		e.abstract("slice-shape")
		f.vals[x] = e.freshVal(x.Type(), x.Name())
	}
}

func (e *Enc) makeSlice(f *frame, x *ssa.MakeSlice) {
	ln := e.idx64(e.val(x.Len), x.Len.Type())
	cp := e.idx64(e.val(x.Cap), x.Cap.Type())
	// make panics for negative or huge sizes; memory exhaustion is not modelled
	lim := bv64(1 << 48)
	if f.con != nil && e.dry == 0 {
		for _, c := range f.con.MakeAsserts {
			env := e.cellEnv(f, x.Pos(), e.cur.clone())
			env.names["makeLen"] = TV{V: Sc{ln}, Ty: types.Typ[types.Int]}
			env.names["makeCap"] = TV{V: Sc{cp}, Ty: types.Typ[types.Int]}
			n := f.nsafety["make"]
			f.nsafety["make"]++
			n0 := len(e.obls)
			e.oblige("pre", fmt.Sprintf("%s/at.make#%d.%s", f.name, n, c.Label), e.evalBool(env, c), x.Pos())
			if len(e.obls) > n0 {
				e.obls[n0].Env = env
				e.obls[n0].ClauseText = c.Text
			}
		}
	}
	e.safety(f, "makeslice", and(ule(ln, cp), ule(cp, lim)), x.Pos())
	elem := x.Type().Underlying().(*types.Slice).Elem()
	arr := e.newArr()
	if isByte(elem) {
		// zeroed
		m := e.byteMem(e.cur)
		e.setVarAt("M|byte", arr, store(m, arr, T{"((as const " + SArr + ") #x00)", SArr}))
	}
	f.vals[x] = Sl{Arr: arr, Off: bv64(0), Len: ln, Cap: cp, Elem: elem}
}

func (e *Enc) typeAssert(f *frame, x *ssa.TypeAssert) {
	v := e.val(x.X)
	if ifc, ok := v.(Ifc); ok && ifc.Dyn != nil && types.Identical(ifc.DynT, x.AssertedType) {
		if x.CommaOk {
			f.vals[x] = Tup{[]Val{ifc.Dyn, Sc{tTrue}}}
		} else {
			f.vals[x] = ifc.Dyn
		}
		return
	}
	e.abstract("type-assert")
	if x.CommaOk {
		f.vals[x] = Tup{[]Val{e.freshVal(x.AssertedType, "ta"), Sc{e.freshT("ok", SBool)}}}
	} else {
		f.vals[x] = e.freshVal(x.AssertedType, "ta")
	}
}

func (e *Enc) runDefers(f *frame) {
	for i := len(f.defers) - 1; i >= 0; i-- {
		d := f.defers[i]
		// the deferred call runs iff its Defer instruction was reached on this path
		cond := d.reach
		before := e.cur.clone()
		savedReach := e.reach
		e.reach = e.def("dreach", and(savedReach, cond))
		e.call(f, d.call.Common(), nil, d.call.Pos())
		after := e.cur
		e.reach = savedReach
		_, st := e.mergeStates([]edgeIn{{cond: and(savedReach, cond), st: after}, {cond: and(savedReach, not(cond)), st: before}}, "defer")
		e.cur = st
	}
}

func (e *Enc) hookChanOp(f *frame, kind string, ch ssa.Value, pos token.Pos) {
	e.abstract("chan-" + kind)
	if kind == "send" && f.con != nil && e.dry == 0 {
		for _, c := range f.con.SendAsserts {
			env := e.cellEnv(f, pos, e.cur.clone())
			n := f.nsafety["send"]
			f.nsafety["send"]++
			n0 := len(e.obls)
			e.oblige("pre", fmt.Sprintf("%s/at.send#%d.%s", f.name, n, c.Label), e.evalBool(env, c), pos)
			if len(e.obls) > n0 {
				e.obls[n0].Env = env
				e.obls[n0].ClauseText = c.Text
			}
		}
	}
}

// expandDefs replaces macro names by their bodies (to the given depth); used
// only to compare branch conditions, never emitted.
func (e *Enc) expandDefs(s string, depth int) string {
	if depth == 0 || len(s) > 4000 {
		return s
	}
	toks := tokens(s)
	changed := false
	for _, t := range toks {
		if _, ok := e.defBody[t]; ok {
			changed = true
			break
		}
	}
	if !changed {
		return s
	}
	var b strings.Builder
	i := 0
	for i < len(s) {
		c := s[i]
		if c == '(' || c == ')' || c == ' ' {
			b.WriteByte(c)
			i++
			continue
		}
		j := i
		for j < len(s) && s[j] != '(' && s[j] != ')' && s[j] != ' ' {
			j++
		}
		t := s[i:j]
		if body, ok := e.defBody[t]; ok {
			b.WriteString(e.expandDefs(body, depth-1))
		} else {
			b.WriteString(t)
		}
		i = j
	}
	return b.String()
}

// isGhostKey: ghost variables and the ghost lock state (lockset.go): no
// unknown callee can write them.
func isGhostKey(k string) bool {
	return strings.HasPrefix(k, "G|") || strings.HasPrefix(k, "L|") || strings.HasPrefix(k, "R|")
}
