package main

import (
	"strings"
)

// sliceQuery drops assumptions that cannot matter for a goal that does not
// depend on byte memory: every assertion whose cone of influence (through
// define-fun macros) touches a symbol of a byte-array sort, and every
// quantified assertion. Dropping assumptions is sound for "unsat" only, so
// the sliced query is never trusted for a counterexample. ok is false when the
// goal itself depends on byte memory (or the text is not one command per line).
func sliceQuery(q string) (string, bool) {
	lines := strings.Split(q, "\n")
	type def struct {
		toks []string
		mem  bool
	}
	defs := map[string]*def{}
	memSym := map[string]bool{}
	isMemSort := func(s string) bool { return strings.Contains(s, "(_ BitVec 8)") }
	var asserts []int
	for i, l := range lines {
		if l == "" {
			continue
		}
		if !balanced(l) {
			return "", false
		}
		switch {
		case strings.HasPrefix(l, "(declare-fun ") || strings.HasPrefix(l, "(declare-const "):
			t := tokens(l)
			if len(t) > 1 && isMemSort(l) {
				memSym[t[1]] = true
			}
		case strings.HasPrefix(l, "(define-fun "):
			t := tokens(l)
			if len(t) < 2 {
				return "", false
			}
			defs[t[1]] = &def{toks: t[2:]}
		case strings.HasPrefix(l, "(assert "):
			asserts = append(asserts, i)
		}
	}
	if len(asserts) < 2 {
		return "", false
	}
	// memo: does the cone of a symbol touch byte memory?
	state := map[string]int{} // 0 unknown, 1 no, 2 yes, 3 in progress
	var touches func(sym string) bool
	touches = func(sym string) bool {
		if memSym[sym] {
			return true
		}
		d := defs[sym]
		if d == nil {
			return false
		}
		switch state[sym] {
		case 1, 3:
			return false
		case 2:
			return true
		}
		state[sym] = 3
		for _, t := range d.toks {
			if touches(t) {
				state[sym] = 2
				return true
			}
		}
		state[sym] = 1
		return false
	}
	lineTouches := func(l string) bool {
		for _, t := range tokens(l) {
			if touches(t) {
				return true
			}
		}
		return false
	}
	// roots: reach and negated goal are the last two assertions
	for _, i := range asserts[len(asserts)-2:] {
		if lineTouches(lines[i]) || strings.Contains(lines[i], "(forall ") || strings.Contains(lines[i], "(exists ") {
			return "", false
		}
	}
	var b strings.Builder
	dropped := 0
	for i, l := range lines {
		if strings.HasPrefix(l, "(assert ") {
			if strings.Contains(l, "(forall ") || strings.Contains(l, "(exists ") || lineTouches(l) {
				dropped++
				continue
			}
		}
		if strings.HasPrefix(l, "(get-value ") {
			continue
		}
		_ = i
		b.WriteString(l)
		b.WriteByte('\n')
	}
	if dropped == 0 {
		return "", false
	}
	return b.String(), true
}

func balanced(l string) bool {
	d := 0
	inBar := false
	for _, c := range l {
		switch {
		case c == '|':
			inBar = !inBar
		case inBar:
		case c == '(':
			d++
		case c == ')':
			d--
		}
	}
	return d == 0
}

// tokens: the symbols of an s-expression line (|quoted| symbols kept whole)
func tokens(l string) []string {
	var out []string
	i := 0
	for i < len(l) {
		c := l[i]
		switch {
		case c == '(' || c == ')' || c == ' ' || c == '\t':
			i++
		case c == '|':
			j := strings.IndexByte(l[i+1:], '|')
			if j < 0 {
				return out
			}
			out = append(out, l[i:i+j+2])
			i += j + 2
		default:
			j := i
			for j < len(l) && l[j] != '(' && l[j] != ')' && l[j] != ' ' {
				j++
			}
			out = append(out, l[i:j])
			i = j
		}
	}
	return out
}
