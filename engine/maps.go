package main

import (
	"fmt"
	"go/types"
	"strings"

	"golang.org/x/tools/go/ssa"
)

// Maps as versioned uninterpreted functions.
//
// A map value is a reference (an identity). Every map has a version ("MV|all":
// identity -> version) that changes with every update or delete of that map
// and that unknown callees may change for every map. A lookup m[k] is an
// uninterpreted function of (identity, version, key); the ",ok" result another
// one. After m[k] = v the lookup of that key in the new version yields v and
// ok; after delete(m, k) it yields not-ok. Nothing is known about other keys
// after an update (sound: every value is possible), and two keys with equal
// contents but different representations (strings) are different arguments
// (also sound: fewer equalities). Contract expressions may index maps; they
// read the same function in the state they are evaluated in, so old(m[k]) is
// the entry before the call.
const mapVerKey = "MV|all"
const mapVerSort = "(Array (_ BitVec 64) (_ BitVec 64))"

func (e *Enc) mapVersion(st *State, id T) T {
	return sel(e.getVar(st, mapVerKey, mapVerSort), id)
}

func (e *Enc) bumpMapVersion(id T) T {
	h := e.getVar(e.cur, mapVerKey, mapVerSort)
	nv := e.freshT("mapver", SBV64)
	e.setVarAt(mapVerKey, id, store(h, id, nv))
	return nv
}

// mapRead returns (value, ok) of m[key] in state st.
func (e *Enc) mapRead(st *State, mt *types.Map, id T, key Val) (Val, T) {
	ver := e.mapVersion(st, id)
	args := []T{id, ver}
	args = append(args, e.flatten(mt.Key(), key)...)
	var sorts []string
	for _, a := range args {
		sorts = append(sorts, a.Sort)
	}
	base := "mapget_" + sanitize(typeKey(mt))
	if e.ufDecls == nil {
		e.ufDecls = map[string]string{}
	}
	app := func(name, sort string) T {
		e.ufDecls[name] = fmt.Sprintf("(declare-fun %s (%s) %s)", name, strings.Join(sorts, " "), sort)
		s := "(" + name
		for _, a := range args {
			s += " " + a.S
		}
		return T{s + ")", sort}
	}
	ls := leavesOf(mt.Elem())
	k := 0
	v := e.rebuild(mt.Elem(), func() T {
		t := app(fmt.Sprintf("%s_%d", base, k), ls[k].Sort)
		k++
		return t
	})
	ok := app(base+"_ok", SBool)
	return v, ok
}

func (e *Enc) mapLookup(f *frame, x *ssa.Lookup) (Val, bool) {
	mt, isMap := x.X.Type().Underlying().(*types.Map)
	if !isMap {
		return nil, false
	}
	m, isOp := e.val(x.X).(Op)
	if !isOp || !modelledElem(mt) {
		return nil, false
	}
	v, ok := e.mapRead(e.cur, mt, m.Id, e.val(x.Index))
	v = e.nameVal(v, x.Name())
	e.assumeLoaded(mt.Elem(), v)
	if x.CommaOk {
		return Tup{[]Val{v, Sc{e.def(x.Name()+"_ok", ok)}}}, true
	}
	return v, true
}

// modelledElem: element types whose leaves the engine can rebuild (scalars,
// strings, slices, structs of those); maps of maps and funcs stay opaque.
func modelledElem(mt *types.Map) bool {
	defer func() { recover() }()
	return len(leavesOf(mt.Elem())) > 0 && len(leavesOf(mt.Key())) > 0
}

func (e *Enc) mapStore(f *frame, x *ssa.MapUpdate) bool {
	mt, isMap := x.Map.Type().Underlying().(*types.Map)
	if !isMap {
		return false
	}
	m, isOp := e.val(x.Map).(Op)
	if !isOp || !modelledElem(mt) {
		return false
	}
	e.bumpMapVersion(m.Id)
	// ghost_loc_mapStores counts the map stores of this function (loop steps
	// use it to say "this iteration recorded something")
	e.setVar("G|loc_mapStores", add(e.getVar(e.cur, "G|loc_mapStores", SBV64), bv64(1)))
	v, ok := e.mapRead(e.cur, mt, m.Id, e.val(x.Key))
	e.assume(ok)
	want := e.flatten(mt.Elem(), e.val(x.Value))
	got := e.flatten(mt.Elem(), v)
	for i := range want {
		if i < len(got) {
			e.assume(eq(got[i], want[i]))
		}
	}
	return true
}

func (e *Enc) mapRemove(c *ssa.CallCommon, args []Val) bool {
	if len(args) != 2 {
		return false
	}
	mt, isMap := c.Args[0].Type().Underlying().(*types.Map)
	m, isOp := args[0].(Op)
	if !isMap || !isOp || !modelledElem(mt) {
		return false
	}
	e.bumpMapVersion(m.Id)
	e.setVar("G|loc_mapDeletes", add(e.getVar(e.cur, "G|loc_mapDeletes", SBV64), bv64(1)))
	_, ok := e.mapRead(e.cur, mt, m.Id, args[1])
	e.assume(not(ok))
	return true
}
