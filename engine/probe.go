//go:build ignore

package main

import (
	"fmt"
	"os"
	"strings"

	"go/types"
	"golang.org/x/tools/go/packages"
	"golang.org/x/tools/go/ssa"
	"golang.org/x/tools/go/ssa/ssautil"
)

func main() {
	cfg := &packages.Config{Mode: packages.LoadAllSyntax, Dir: "/repo", BuildFlags: []string{"-tags=verif"}}
	pkgs, err := packages.Load(cfg, os.Args[1])
	if err != nil {
		panic(err)
	}
	prog, spkgs := ssautil.AllPackages(pkgs, ssa.NaiveForm|ssa.InstantiateGenerics)
	prog.Build()
	for _, p := range spkgs {
		if p == nil {
			continue
		}
		for _, m := range p.Members {
			if f, ok := m.(*ssa.Function); ok && strings.Contains(f.Name(), os.Args[2]) {
				f.WriteTo(os.Stdout)
				for _, af := range f.AnonFuncs {
					af.WriteTo(os.Stdout)
				}
			}
		}
		// methods
		for _, m := range p.Members {
			if t, ok := m.(*ssa.Type); ok {
				for _, ty := range []interface{}{t.Type()} {
					_ = ty
				}
				ms := prog.MethodSets.MethodSet(t.Type())
				for i := 0; i < ms.Len(); i++ {
					f := prog.MethodValue(ms.At(i))
					if f != nil && strings.Contains(f.Name(), os.Args[2]) {
						f.WriteTo(os.Stdout)
					}
				}
				ms = prog.MethodSets.MethodSet(ptrTo(t))
				for i := 0; i < ms.Len(); i++ {
					f := prog.MethodValue(ms.At(i))
					if f != nil && strings.Contains(f.Name(), os.Args[2]) {
						f.WriteTo(os.Stdout)
						for _, af := range f.AnonFuncs {
							af.WriteTo(os.Stdout)
						}
					}
				}
			}
		}
	}
	fmt.Println("done")
}

func ptrTo(t *ssa.Type) types.Type { return types.NewPointer(t.Type()) }
