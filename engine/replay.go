package main

import (
	"bytes"
	"context"
	"encoding/json"
	"fmt"
	"go/ast"
	"go/printer"
	"go/token"
	"go/types"
	"os"
	"os/exec"
	"path/filepath"
	"regexp"
	"sort"
	"strconv"
	"strings"
	"time"

	"golang.org/x/tools/go/ssa"
)

type ReplayFile struct {
	Property   string                 `json:"property"`
	Obligation string                 `json:"obligation"`
	Function   string                 `json:"function"`
	Kind       string                 `json:"kind"`
	Pos        string                 `json:"pos,omitempty"`
	Status     string                 `json:"solver_status"`
	Solver     string                 `json:"solver"`
	Goal       string                 `json:"goal"`
	Clause     string                 `json:"clause,omitempty"`
	Inputs     map[string]interface{} `json:"inputs,omitempty"`
	SolverOut  string                 `json:"solver_output"`
	Confirmed  bool                   `json:"confirmed_on_real_code"`
	ReplayLog  string                 `json:"replay_log,omitempty"`
	Package    string                 `json:"package,omitempty"`
	Harness    string                 `json:"harness,omitempty"`
	Note       string                 `json:"note,omitempty"`
}

func trunc(s string, n int) string {
	if len(s) > n {
		return s[:n] + "..."
	}
	return s
}

func (r *Report) writeReplay(dir string, e *Enc, ob *Obligation) string {
	os.MkdirAll(dir, 0o755)
	path := filepath.Join(dir, sanitize(ob.Name)+".json")
	rf := ReplayFile{Property: r.Prop.ID, Obligation: ob.Name, Function: ob.Func, Kind: ob.Kind, Pos: ob.Pos, Status: ob.Res.Status, Solver: ob.Res.Solver,
		Goal: trunc(ob.Goal.S, 2000), SolverOut: trunc(ob.Res.Output, 4000), Clause: ob.ClauseText}
	if ob.Res.Status != "sat" {
		rf.Note = "the solvers returned no model (" + ob.Res.Status + "); the obligation was discharged on the unchanged tree and is not now"
	}
	writeJSON(path, rf)
	return path
}

func writeJSON(path string, v interface{}) {
	data, _ := json.MarshalIndent(v, "", " ")
	os.WriteFile(path, data, 0o644)
}

// ------------------------------------------------------------------ model extraction

type modelBytes struct {
	Arr, Off, Len, Cap uint64
	Data               []byte
}

var reGetValue = regexp.MustCompile(`^\(\((.*) (#x[0-9a-fA-F]+|#b[01]+|true|false)\)\)$`)

func parseBVLit(s string) (uint64, bool) {
	switch {
	case strings.HasPrefix(s, "#x"):
		v, err := strconv.ParseUint(s[2:], 16, 64)
		return v, err == nil
	case strings.HasPrefix(s, "#b"):
		v, err := strconv.ParseUint(s[2:], 2, 64)
		return v, err == nil
	case s == "true":
		return 1, true
	case s == "false":
		return 0, true
	}
	return 0, false
}

// modelInputs asks for a model (small sizes first) and returns the inputs.
func (r *Report) modelInputs(e *Enc, ob *Obligation) (map[string]interface{}, map[string]*modelBytes, map[string]uint64) {
	small := []string{}
	for _, in := range e.inputs {
		if in.Kind == "bytes" || in.Kind == "string" {
			small = append(small, fmt.Sprintf("(assert (bvule %s #x0000000000000020))", in.Len), fmt.Sprintf("(assert (bvule %s #x0000000000000040))", in.Cap),
				fmt.Sprintf("(assert (bvule %s #x0000000000000040))", in.Off))
		}
	}
	try := func(extra []string) (string, bool) {
		o2 := *ob
		o2.Extra = append(append(append([]string{}, ob.Extra...), ob.Res.Cube...), extra...)
		q := e.query(&o2, true)
		res := solve(r.Work, ob.Name+".model", q, r.Opts.timeout, r.Opts.seed, "z3")
		if res.Status == "sat" {
			return res.Output, true
		}
		return res.Output, false
	}
	out, ok := try(small)
	if !ok {
		var medium []string
		for _, in := range e.inputs {
			if in.Kind == "bytes" || in.Kind == "string" {
				medium = append(medium, fmt.Sprintf("(assert (bvule %s #x0000000000000028))", in.Len), fmt.Sprintf("(assert (bvule %s #x0000000000001000))", in.Cap),
					fmt.Sprintf("(assert (bvule %s #x0000000000001000))", in.Off))
			}
		}
		out, ok = try(medium)
	}
	if !ok {
		var large []string
		for _, in := range e.inputs {
			if in.Kind == "bytes" || in.Kind == "string" {
				large = append(large, fmt.Sprintf("(assert (bvule %s #x0000000000001000))", in.Len), fmt.Sprintf("(assert (bvule %s #x0000000000002000))", in.Cap),
					fmt.Sprintf("(assert (bvule %s #x0000000000001000))", in.Off))
			}
		}
		out, ok = try(large)
	}
	if !ok {
		out, ok = try(nil)
		if !ok {
			return nil, nil, nil
		}
	}
	var vals []uint64
	for _, ln := range strings.Split(out, "\n") {
		ln = strings.TrimSpace(ln)
		if !strings.HasPrefix(ln, "((") {
			continue
		}
		idx := strings.LastIndex(ln, " ")
		if idx < 0 {
			continue
		}
		lit := strings.TrimSuffix(ln[idx+1:], "))")
		v, ok := parseBVLit(lit)
		if !ok {
			return nil, nil, nil
		}
		vals = append(vals, v)
	}
	inputs := map[string]interface{}{}
	mb := map[string]*modelBytes{}
	scal := map[string]uint64{}
	i := 0
	next := func() uint64 {
		if i < len(vals) {
			i++
			return vals[i-1]
		}
		return 0
	}
	for _, in := range e.inputs {
		switch in.Kind {
		case "int", "bool", "iface":
			v := next()
			scal[in.Name] = v
			inputs[in.Name] = v
		case "bytes", "string":
			b := &modelBytes{Arr: next(), Off: next(), Len: next(), Cap: next()}
			for k := 0; k < maxModelBytes; k++ {
				b.Data = append(b.Data, byte(next()))
			}
			mb[in.Name] = b
			n := b.Len
			if n > maxModelBytes {
				n = maxModelBytes
			}
			inputs[in.Name] = map[string]interface{}{"arr": b.Arr, "off": b.Off, "len": b.Len, "cap": b.Cap, "bytes": fmt.Sprintf("%x", b.Data[:n])}
		}
	}
	return inputs, mb, scal
}

// ------------------------------------------------------------------ harness generation (K1: direct call of the function)

type harnessGen struct {
	e       *Enc
	fn      *ssa.Function
	pkg     *types.Package
	imports map[string]string // path -> name
	specs   map[string]*SpecFunc
	unsupported string
}

func (h *harnessGen) qual(p *types.Package) string {
	if p == h.pkg {
		return ""
	}
	h.imports[p.Path()] = p.Name()
	return p.Name()
}

func (h *harnessGen) typeStr(t types.Type) string { return types.TypeString(t, h.qual) }

// goExpr translates a contract expression into Go source evaluated by the
// replay helpers. Unsupported constructs set h.unsupported.
func (h *harnessGen) goExpr(x ast.Expr, subst map[string]ast.Expr) string {
	switch n := x.(type) {
	case *ast.ParenExpr:
		return "(" + h.goExpr(n.X, subst) + ")"
	case *ast.BasicLit:
		return n.Value
	case *ast.Ident:
		if s, ok := subst[n.Name]; ok {
			return "(" + h.goExpr(s, nil) + ")"
		}
		if o := h.pkg.Scope().Lookup(n.Name); o != nil {
			return n.Name
		}
		return n.Name
	case *ast.SelectorExpr:
		if id, ok := n.X.(*ast.Ident); ok {
			if _, sub := subst[id.Name]; !sub {
				for _, imp := range h.pkg.Imports() {
					if imp.Name() == id.Name {
						h.imports[imp.Path()] = imp.Name()
					}
				}
			}
		}
		return h.goExpr(n.X, subst) + "." + n.Sel.Name
	case *ast.UnaryExpr:
		return n.Op.String() + h.goExpr(n.X, subst)
	case *ast.BinaryExpr:
		return "(" + h.goExpr(n.X, subst) + " " + n.Op.String() + " " + h.goExpr(n.Y, subst) + ")"
	case *ast.IndexExpr:
		return "lsvcAt(" + h.goExpr(n.X, subst) + ", int(" + h.goExpr(n.Index, subst) + "))"
	case *ast.SliceExpr:
		lo, hi := "0", "-1"
		if n.Low != nil {
			lo = "int(" + h.goExpr(n.Low, subst) + ")"
		}
		if n.High != nil {
			hi = "int(" + h.goExpr(n.High, subst) + ")"
		}
		return "lsvcSub(" + h.goExpr(n.X, subst) + ", " + lo + ", " + hi + ")"
	case *ast.CallExpr:
		name := ""
		if id, ok := n.Fun.(*ast.Ident); ok {
			name = id.Name
		}
		arg := func(i int) string { return h.goExpr(n.Args[i], subst) }
		switch name {
		case "implies":
			return "(!(" + arg(0) + ") || (" + arg(1) + "))"
		case "iff":
			return "((" + arg(0) + ") == (" + arg(1) + "))"
		case "ite":
			return "lsvcIte(" + arg(0) + ", " + arg(1) + ", " + arg(2) + ")"
		case "isnil":
			return "(" + arg(0) + " == nil)"
		case "len", "cap":
			return name + "(" + arg(0) + ")"
		case "be64", "be32", "be16", "le64", "le32", "le16":
			off := "0"
			if len(n.Args) > 1 {
				off = "int(" + arg(1) + ")"
			}
			return "lsvc" + strings.ToUpper(name[:1]) + name[1:] + "(" + arg(0) + ", " + off + ")"
		case "seqEq":
			return "lsvcSeqEq(" + arg(0) + ", " + arg(1) + ")"
		case "sameSlice":
			return "lsvcSameSlice(" + arg(0) + ", " + arg(1) + ")"
		case "disjoint", "fresh":
			return "true"
		case "lexLess":
			return "(bytes.Compare(" + arg(0) + ", " + arg(1) + ") < 0)"
		case "lexLE":
			return "(bytes.Compare(" + arg(0) + ", " + arg(1) + ") <= 0)"
		case "forall", "exists":
			id := n.Args[0].(*ast.Ident).Name
			return "lsvc" + strings.ToUpper(name[:1]) + name[1:] + "(int(" + arg(1) + "), int(" + arg(2) + "), func(" + id + " int) bool { return " + arg(3) + " })"
		case "old", "unchangedOutside", "seqEqOld", "sameArray":
			h.unsupported = name + "() cannot be evaluated by the replay harness"
			return "true"
		}
		if sf, ok := h.specs[name]; ok {
			s2 := map[string]ast.Expr{}
			for i, p := range sf.Params {
				// pre-translate the argument in the caller's substitution
				s2[p] = &ast.Ident{Name: "\x00" + h.goExpr(n.Args[i], subst)}
			}
			return "(" + h.goExprRaw(sf.Body, s2) + ")"
		}
		// conversion or unknown call: print as is
		var args []string
		for i := range n.Args {
			args = append(args, arg(i))
		}
		return h.goExpr(n.Fun, subst) + "(" + strings.Join(args, ", ") + ")"
	}
	var buf bytes.Buffer
	printer.Fprint(&buf, token.NewFileSet(), x)
	return buf.String()
}

// goExprRaw: like goExpr, but substituted identifiers carry ready Go text.
func (h *harnessGen) goExprRaw(x ast.Expr, subst map[string]ast.Expr) string {
	return h.goExpr(x, subst)
}

const replayHelpers = `
var lsvcUndetermined bool

func lsvcAt(s []byte, i int) byte {
	if i < 0 || i >= cap(s) {
		lsvcUndetermined = true
		return 0
	}
	return s[:cap(s)][i]
}
func lsvcSub(s []byte, lo, hi int) []byte {
	if hi < 0 {
		hi = len(s)
	}
	if lo < 0 || lo > hi || hi > cap(s) {
		lsvcUndetermined = true
		return nil
	}
	return s[lo:hi]
}
func lsvcRd(s []byte, off, n int, big bool) uint64 {
	var v uint64
	for i := 0; i < n; i++ {
		b := uint64(lsvcAt(s, off+i))
		if big {
			v = v<<8 | b
		} else {
			v |= b << (8 * uint(i))
		}
	}
	return v
}
func lsvcBe64(s []byte, off int) uint64 { return lsvcRd(s, off, 8, true) }
func lsvcBe32(s []byte, off int) uint32 { return uint32(lsvcRd(s, off, 4, true)) }
func lsvcBe16(s []byte, off int) uint16 { return uint16(lsvcRd(s, off, 2, true)) }
func lsvcLe64(s []byte, off int) uint64 { return lsvcRd(s, off, 8, false) }
func lsvcLe32(s []byte, off int) uint32 { return uint32(lsvcRd(s, off, 4, false)) }
func lsvcLe16(s []byte, off int) uint16 { return uint16(lsvcRd(s, off, 2, false)) }
func lsvcSeqEq(a, b []byte) bool     { return bytes.Equal(a, b) }
func lsvcSameSlice(a, b []byte) bool {
	return len(a) == len(b) && unsafe.SliceData(a) == unsafe.SliceData(b)
}
func lsvcIte[T any](c bool, a, b T) T {
	if c {
		return a
	}
	return b
}
func lsvcForall(lo, hi int, f func(int) bool) bool {
	if hi-lo > 1<<20 {
		lsvcUndetermined = true
		return true
	}
	for i := lo; i < hi; i++ {
		if !f(i) {
			return false
		}
	}
	return true
}
func lsvcExists(lo, hi int, f func(int) bool) bool {
	if hi-lo > 1<<20 {
		lsvcUndetermined = true
		return false
	}
	for i := lo; i < hi; i++ {
		if f(i) {
			return true
		}
	}
	return false
}
var _ = bytes.Equal
var _ = unsafe.Pointer(nil)
var _ = fmt.Sprint
`

// substituted identifiers: names starting with NUL carry literal Go text
func init() {}

func (r *Report) replay(path string, e *Enc, ob *Obligation) bool {
	var rf ReplayFile
	data, _ := os.ReadFile(path)
	json.Unmarshal(data, &rf)
	defer func() { writeJSON(path, rf) }()

	if custom, err := os.ReadFile(filepath.Join(verifDir, "replay", sanitize(ob.Name)+".go")); err == nil && e.topFn != nil {
		// hand-written scenario for obligations whose inputs are not function arguments
		rf.Harness = string(custom)
		rf.Package = funcPkgPath(e.topFn)
		log, confirmed := runHarness(r.Work, e.L.RepoDir, rf.Package, rf.Harness, sanitize(ob.Name))
		rf.ReplayLog = trunc(log, 3000)
		rf.Confirmed = confirmed
		rf.Note = "custom scenario replay (no solver inputs: the obligation depends on package state)"
		return confirmed
	}
	if ob.Kind == "rel" && strings.Contains(ob.Name, "/rel.") {
		inputs, mb, scal := r.relModel(e, ob)
		if inputs == nil {
			rf.Note = "no model could be read back from the solver"
			return false
		}
		rf.Inputs = inputs
		which := ob.Name[strings.Index(ob.Name, "rel.")+4 : strings.Index(ob.Name, "/")]
		src := relHarness(which, mb, scal)
		rf.Harness = src
		rf.Package = repoModule + "/syncer"
		log, confirmed := runHarness(r.Work, e.L.RepoDir, rf.Package, src, sanitize(ob.Name))
		rf.ReplayLog = trunc(log, 3000)
		rf.Confirmed = confirmed
		return confirmed
	}
	if ob.Kind != "post" && ob.Kind != "safety" {
		rf.Note = "no direct-call replay for obligation kind " + ob.Kind + " (internal program point)"
		return false
	}
	if len(e.frames) != 0 || e.topFn == nil {
		// fall through
	}
	fn := e.topFn
	if fn == nil || fn.Parent() != nil {
		rf.Note = "no direct-call replay for closures"
		return false
	}
	inputs, mb, scal := r.modelInputs(e, ob)
	if inputs == nil {
		rf.Note = "no model could be read back from the solver"
		return false
	}
	rf.Inputs = inputs
	for _, b := range mb {
		if b.Len > 1<<16 || b.Cap > 1<<20 || b.Off > 1<<20 {
			rf.Note = "model needs a huge allocation; not replayed"
			return false
		}
	}
	pkg, _ := e.L.typesInfoFor(fn)
	h := &harnessGen{e: e, fn: fn, pkg: pkg, imports: map[string]string{}, specs: e.L.Contracts.Specs}
	src, ok := h.generate(ob, mb, scal)
	if !ok {
		rf.Note = "harness generation failed: " + h.unsupported
		return false
	}
	rf.Harness = src
	rf.Package = funcPkgPath(fn)
	log, confirmed := runHarness(r.Work, e.L.RepoDir, funcPkgPath(fn), src, sanitize(ob.Name))
	rf.ReplayLog = trunc(log, 3000)
	rf.Confirmed = confirmed
	return confirmed
}

func runHarness(work, repo, pkgPath, src, tag string) (string, bool) {
	rel := strings.TrimPrefix(strings.TrimPrefix(pkgPath, repoModule), "/")
	dir := filepath.Join(work, "replay-"+tag)
	os.MkdirAll(dir, 0o755)
	testFile := filepath.Join(dir, "zz_lsvc_replay_test.go")
	os.WriteFile(testFile, []byte(src), 0o644)
	ov := map[string]map[string]string{"Replace": {filepath.Join(repo, rel, "zz_lsvc_replay_test.go"): testFile}}
	ovPath := filepath.Join(dir, "overlay.json")
	writeJSON(ovPath, ov)
	ctx, cancel := context.WithTimeout(context.Background(), 180*time.Second)
	defer cancel()
	cmd := exec.CommandContext(ctx, "go", "test", "-tags", "verif", "-overlay", ovPath, "-vet=off", "-count=1", "-v", "-timeout", "60s", "-run", "^TestLsvcReplay$", "./"+rel+"/")
	cmd.Dir = repo
	cmd.Env = append(os.Environ(), "GOFLAGS=-mod=mod", "GOPROXY=off")
	var out bytes.Buffer
	cmd.Stdout = &out
	cmd.Stderr = &out
	// the go test process needs nothing from the encoder: let other replays prepare
	locked := encMu.TryLock()
	if locked {
		// not held by this call chain (violation replays run under finish's lock)
		encMu.Unlock()
		cmd.Run()
	} else {
		encMu.Unlock()
		cmd.Run()
		encMu.Lock()
	}
	log := strings.ReplaceAll(out.String(), "\x00", "")
	return log, strings.Contains(log, "LSVC-REPLAY: CONFIRMED")
}

func (h *harnessGen) generate(ob *Obligation, mb map[string]*modelBytes, scal map[string]uint64) (string, bool) {
	fn := h.fn
	var b strings.Builder
	var body strings.Builder
	// backing buffers grouped by array id
	type bufInfo struct {
		size uint64
		name string
	}
	bufs := map[uint64]*bufInfo{}
	var arrIDs []uint64
	for _, m := range mb {
		if m.Arr == 0 {
			continue
		}
		bi := bufs[m.Arr]
		if bi == nil {
			bi = &bufInfo{name: fmt.Sprintf("lsvcBuf%d", len(bufs))}
			bufs[m.Arr] = bi
			arrIDs = append(arrIDs, m.Arr)
		}
		if m.Off+m.Cap > bi.size {
			bi.size = m.Off + m.Cap
		}
		if m.Off+m.Len > bi.size {
			bi.size = m.Off + m.Len
		}
	}
	sort.Slice(arrIDs, func(i, j int) bool { return arrIDs[i] < arrIDs[j] })
	for _, id := range arrIDs {
		fmt.Fprintf(&body, "\t%s := make([]byte, %d)\n", bufs[id].name, bufs[id].size+1)
	}
	var names []string
	for n := range mb {
		names = append(names, n)
	}
	sort.Strings(names)
	for _, n := range names {
		m := mb[n]
		if m.Arr == 0 {
			continue
		}
		for k := uint64(0); k < uint64(len(m.Data)) && m.Off+k < bufs[m.Arr].size; k++ {
			if m.Data[k] != 0 {
				fmt.Fprintf(&body, "\t%s[%d] = %d\n", bufs[m.Arr].name, m.Off+k, m.Data[k])
			}
		}
	}
	sliceExpr := func(n string, asString bool) string {
		m := mb[n]
		if m.Arr == 0 {
			if asString {
				return `""`
			}
			return "nil"
		}
		cp := m.Cap
		if cp < m.Len {
			cp = m.Len
		}
		s := fmt.Sprintf("%s[%d:%d:%d]", bufs[m.Arr].name, m.Off, m.Off+m.Len, m.Off+cp)
		if asString {
			return "string(" + s + ")"
		}
		return s
	}
	// parameters
	var callArgs []string
	recvName := ""
	for i, p := range fn.Params {
		t := p.Type()
		name := "p_" + p.Name()
		isRecv := i == 0 && fn.Signature.Recv() != nil
		switch t.Underlying().(type) {
		case *types.Interface, *types.Signature, *types.Chan, *types.Map:
			// the harness passes nil; a model in which the argument is not nil
			// cannot be reproduced (a nil dereference would confirm nothing)
			if v, ok := scal[p.Name()]; ok && v != 0 {
				h.unsupported = "parameter " + p.Name() + " (" + t.String() + ") is not nil in the model and cannot be constructed by the replay harness"
				return "", false
			}
		}
		if pt, ok := t.Underlying().(*types.Pointer); ok {
			fmt.Fprintf(&body, "\t%s := new(%s)\n", name, h.typeStr(pt.Elem()))
		} else {
			fmt.Fprintf(&body, "\tvar %s %s\n", name, h.typeStr(t))
		}
		if isRecv {
			recvName = name
		} else {
			callArgs = append(callArgs, name)
		}
	}
	// assignments from the model
	for _, in := range h.e.inputs {
		parts := strings.SplitN(in.Name, ".", 2)
		lhs := "p_" + parts[0]
		if len(parts) > 1 {
			lhs += "." + parts[1]
		}
		switch in.Kind {
		case "bytes":
			fmt.Fprintf(&body, "\t%s = %s\n", lhs, sliceExpr(in.Name, false))
		case "string":
			fmt.Fprintf(&body, "\t%s = %s\n", lhs, sliceExpr(in.Name, true))
		case "bool":
			fmt.Fprintf(&body, "\t%s = %v\n", lhs, scal[in.Name] != 0)
		case "int":
			ty := h.leafType(fn, in.Name)
			if ty == nil {
				continue
			}
			if isFloat(ty) {
				continue
			}
			v := scal[in.Name]
			if isSigned(ty) {
				w := in.Bits
				sv := int64(v)
				if w < 64 && v&(1<<uint(w-1)) != 0 {
					sv = int64(v) - (1 << uint(w))
				}
				fmt.Fprintf(&body, "\t%s = %s(%d)\n", lhs, h.typeStr(ty), sv)
			} else {
				fmt.Fprintf(&body, "\t%s = %s(%d)\n", lhs, h.typeStr(ty), v)
			}
		}
	}
	// configuration floats: choose RetentionDays so that the real
	// RetentionDuration() is (close to) the value the model gave the
	// uninterpreted function
	for n, v := range scal {
		if strings.HasPrefix(n, "uf:") && strings.HasSuffix(n, "RetentionDuration") {
			for _, p := range fn.Params {
				if st, ok := p.Type().Underlying().(*types.Struct); ok {
					for i := 0; i < st.NumFields(); i++ {
						if st.Field(i).Name() == "RetentionDays" {
							fmt.Fprintf(&body, "\tp_%s.RetentionDays = float32(float64(int64(%d)) / float64(24*3600*1000000000))\n", p.Name(), int64(v))
						}
					}
				}
			}
		}
	}
	// the call
	res := fn.Signature.Results()
	con := h.e.L.contractOf(fn)
	rnames := h.e.resultNames(con, fn.Signature, fn)
	var lhsRes []string
	for i := 0; i < res.Len(); i++ {
		lhsRes = append(lhsRes, "r_"+rnames[i])
	}
	callee := fn.Name()
	if recvName != "" {
		if _, isPtr := fn.Signature.Recv().Type().(*types.Pointer); isPtr {
			callee = recvName + "." + fn.Name()
		} else {
			callee = recvName + "." + fn.Name()
		}
	}
	call := callee + "(" + strings.Join(callArgs, ", ") + ")"
	// clause
	subst := map[string]ast.Expr{}
	for _, p := range fn.Params {
		subst[p.Name()] = &ast.Ident{Name: "\x00p_" + p.Name()}
	}
	for i := range lhsRes {
		subst[rnames[i]] = &ast.Ident{Name: "\x00" + lhsRes[i]}
	}
	clause := "true"
	if ob.Kind == "post" {
		if ob.ClauseExpr == nil {
			h.unsupported = "obligation has no clause expression"
			return "", false
		}
		// lets
		if con != nil {
			for _, l := range con.Lets {
				subst[l.Label] = &ast.Ident{Name: "\x00(" + h.goExpr(l.Expr, subst) + ")"}
			}
		}
		clause = h.goExpr(ob.ClauseExpr, subst)
		if h.unsupported != "" {
			return "", false
		}
	}
	fmt.Fprintf(&body, "\tfunc() {\n\t\tdefer func() {\n\t\t\tif r := recover(); r != nil {\n\t\t\t\tfmt.Println(\"LSVC-REPLAY: PANIC:\", r)\n")
	if ob.Kind == "safety" {
		// the panic must be of the kind the obligation is about: nil
		// dereferences are assumed away by the model, so one that happens on
		// an input the harness could not build confirms nothing
		want := ""
		switch {
		case strings.Contains(ob.Name, "/safety.index#"):
			want = "index out of range"
		case strings.Contains(ob.Name, "/safety.slice#"):
			want = "slice bounds out of range"
		case strings.Contains(ob.Name, "/safety.makeslice#"):
			want = "makeslice"
		case strings.Contains(ob.Name, "/safety.div#"):
			want = "divide"
		case strings.Contains(ob.Name, "/safety.shift#"):
			want = "shift"
		}
		fmt.Fprintf(&body, "\t\t\t\tif msg := fmt.Sprint(r); lsvcstrings.Contains(msg, %q) && !lsvcstrings.Contains(msg, \"nil pointer dereference\") {\n", want)
		fmt.Fprintf(&body, "\t\t\t\t\tfmt.Println(\"LSVC-REPLAY: CONFIRMED (the real function panics on the model's input)\")\n")
		fmt.Fprintf(&body, "\t\t\t\t}\n")
		h.imports["strings"] = "lsvcstrings"
	}
	fmt.Fprintf(&body, "\t\t\t}\n\t\t}()\n")
	if len(lhsRes) > 0 {
		fmt.Fprintf(&body, "\t\t%s := %s\n", strings.Join(lhsRes, ", "), call)
		for _, l := range lhsRes {
			fmt.Fprintf(&body, "\t\t_ = %s\n", l)
		}
	} else {
		fmt.Fprintf(&body, "\t\t%s\n", call)
	}
	if ob.Kind == "post" {
		fmt.Fprintf(&body, "\t\tok := %s\n", clause)
		fmt.Fprintf(&body, "\t\tfmt.Println(\"LSVC-REPLAY: clause holds:\", ok, \"undetermined:\", lsvcUndetermined)\n")
		fmt.Fprintf(&body, "\t\tif !ok && !lsvcUndetermined {\n\t\t\tfmt.Println(\"LSVC-REPLAY: CONFIRMED (the postcondition is false on the real function's result)\")\n\t\t}\n")
	} else {
		fmt.Fprintf(&body, "\t\tfmt.Println(\"LSVC-REPLAY: no panic\")\n")
	}
	fmt.Fprintf(&body, "\t}()\n")

	fmt.Fprintf(&b, "package %s\n\nimport (\n\t\"bytes\"\n\t\"fmt\"\n\t\"testing\"\n\t\"unsafe\"\n", h.pkg.Name())
	var imps []string
	for p := range h.imports {
		imps = append(imps, p)
	}
	sort.Strings(imps)
	for _, p := range imps {
		if p == "bytes" || p == "fmt" || p == "testing" || p == "unsafe" {
			continue
		}
		fmt.Fprintf(&b, "\t%s %q\n", h.imports[p], p)
	}
	fmt.Fprintf(&b, ")\n%s\n// Obligation: %s\n// Clause: %s\nfunc TestLsvcReplay(t *testing.T) {\n%s}\n", replayHelpers, ob.Name, ob.ClauseText, body.String())
	out := strings.ReplaceAll(b.String(), "\x00", "")
	return out, true
}

// leafType finds the Go type of an input path like "it.curKV.TimestampNano".
func (h *harnessGen) leafType(fn *ssa.Function, path string) types.Type {
	parts := strings.Split(path, ".")
	var t types.Type
	for _, p := range fn.Params {
		if p.Name() == parts[0] {
			t = p.Type()
		}
	}
	if t == nil {
		return nil
	}
	for _, f := range parts[1:] {
		if pt, ok := t.Underlying().(*types.Pointer); ok {
			t = pt.Elem()
		}
		st, ok := t.Underlying().(*types.Struct)
		if !ok {
			return nil
		}
		found := false
		for i := 0; i < st.NumFields(); i++ {
			if st.Field(i).Name() == f {
				t = st.Field(i).Type()
				found = true
				break
			}
		}
		if !found {
			return nil
		}
	}
	return t
}

func cmdReplay(args []string) int {
	if len(args) < 1 {
		fmt.Fprintln(os.Stderr, "usage: lsvc replay <path>")
		return 2
	}
	var rf ReplayFile
	data, err := os.ReadFile(args[0])
	if err != nil {
		fmt.Fprintln(os.Stderr, err)
		return 2
	}
	if err := json.Unmarshal(data, &rf); err != nil {
		fmt.Fprintln(os.Stderr, err)
		return 2
	}
	fmt.Printf("obligation: %s\nsolver: %s (%s)\n", rf.Obligation, rf.Solver, rf.Status)
	if rf.Harness == "" {
		fmt.Println("no replay harness recorded:", rf.Note)
		fmt.Println(rf.SolverOut)
		return 1
	}
	work := filepath.Join(verifDir, "work", "replay-cmd")
	os.MkdirAll(work, 0o755)
	log, confirmed := runHarness(work, repoDir, rf.Package, rf.Harness, "cmd")
	fmt.Println(log)
	if confirmed {
		fmt.Println("replay: violation reproduced on the real code")
		return 1
	}
	fmt.Println("replay: violation NOT reproduced")
	return 0
}
