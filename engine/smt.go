package main

import (
	"crypto/sha256"
	"encoding/hex"
	"bytes"
	"context"
	"fmt"
	"os"
	"os/exec"
	"path/filepath"
	"strings"
	"sync"
	"time"
)

// T is an SMT-LIB term with its sort.
type T struct {
	S    string
	Sort string
}

const (
	SBool = "Bool"
	SBV8  = "(_ BitVec 8)"
	SBV16 = "(_ BitVec 16)"
	SBV32 = "(_ BitVec 32)"
	SBV64 = "(_ BitVec 64)"
	// one byte array: index -> byte
	SArr = "(Array (_ BitVec 64) (_ BitVec 8))"
)

func bvSort(n int) string { return fmt.Sprintf("(_ BitVec %d)", n) }

func sortWidth(s string) int {
	var n int
	if _, err := fmt.Sscanf(s, "(_ BitVec %d)", &n); err == nil {
		return n
	}
	return 0
}

func memSort(elem string) string {
	return "(Array (_ BitVec 64) (Array (_ BitVec 64) " + elem + "))"
}
func heapSort(elem string) string { return "(Array (_ BitVec 64) " + elem + ")" }

var (
	tTrue  = T{"true", SBool}
	tFalse = T{"false", SBool}
)

func bv(v uint64, w int) T {
	if w%4 == 0 {
		return T{fmt.Sprintf("#x%0*x", w/4, maskW(v, w)), bvSort(w)}
	}
	return T{fmt.Sprintf("(_ bv%d %d)", maskW(v, w), w), bvSort(w)}
}
func maskW(v uint64, w int) uint64 {
	if w >= 64 {
		return v
	}
	return v & ((1 << uint(w)) - 1)
}
func bv64(v uint64) T { return bv(v, 64) }

func app(sort, op string, args ...T) T {
	var b strings.Builder
	b.WriteByte('(')
	b.WriteString(op)
	for _, a := range args {
		b.WriteByte(' ')
		b.WriteString(a.S)
	}
	b.WriteByte(')')
	return T{b.String(), sort}
}

func and(ts ...T) T {
	var xs []T
	for _, t := range ts {
		if t.S == "true" {
			continue
		}
		if t.S == "false" {
			return tFalse
		}
		xs = append(xs, t)
	}
	if len(xs) == 0 {
		return tTrue
	}
	if len(xs) == 1 {
		return xs[0]
	}
	return app(SBool, "and", xs...)
}
func or(ts ...T) T {
	var xs []T
	for _, t := range ts {
		if t.S == "false" {
			continue
		}
		if t.S == "true" {
			return tTrue
		}
		xs = append(xs, t)
	}
	if len(xs) == 0 {
		return tFalse
	}
	if len(xs) == 1 {
		return xs[0]
	}
	return app(SBool, "or", xs...)
}
func not(t T) T {
	if t.S == "true" {
		return tFalse
	}
	if t.S == "false" {
		return tTrue
	}
	return app(SBool, "not", t)
}
func implies(a, b T) T {
	if a.S == "true" {
		return b
	}
	if a.S == "false" || b.S == "true" {
		return tTrue
	}
	return app(SBool, "=>", a, b)
}
func eq(a, b T) T {
	if a.S == b.S {
		return tTrue
	}
	if a.Sort != b.Sort {
		panic(fmt.Sprintf("eq: sort mismatch %s:%s vs %s:%s", a.S, a.Sort, b.S, b.Sort))
	}
	return app(SBool, "=", a, b)
}
func ite(c, a, b T) T {
	if c.S == "true" {
		return a
	}
	if c.S == "false" {
		return b
	}
	if a.S == b.S {
		return a
	}
	if a.Sort != b.Sort {
		panic(fmt.Sprintf("ite: sort mismatch %s:%s vs %s:%s", a.S, a.Sort, b.S, b.Sort))
	}
	return app(a.Sort, "ite", c, a, b)
}
func sel(a, i T) T {
	// result sort: strip "(Array <idx> " prefix
	return app(arrElemSort(a.Sort), "select", a, i)
}
func store(a, i, v T) T { return app(a.Sort, "store", a, i, v) }

func arrElemSort(s string) string {
	// s = (Array IDX ELEM)
	if !strings.HasPrefix(s, "(Array ") {
		panic("not an array sort: " + s)
	}
	rest := s[len("(Array ") : len(s)-1]
	// skip one sort expression
	n := skipSexp(rest)
	return strings.TrimSpace(rest[n:])
}
func skipSexp(s string) int {
	i := 0
	for i < len(s) && s[i] == ' ' {
		i++
	}
	if i < len(s) && s[i] == '(' {
		d := 0
		for ; i < len(s); i++ {
			if s[i] == '(' {
				d++
			} else if s[i] == ')' {
				d--
				if d == 0 {
					return i + 1
				}
			}
		}
	}
	for i < len(s) && s[i] != ' ' {
		i++
	}
	return i
}

func bvbin(op string, a, b T) T {
	if a.Sort != b.Sort {
		panic(fmt.Sprintf("%s: sort mismatch %s:%s vs %s:%s", op, a.S, a.Sort, b.S, b.Sort))
	}
	return app(a.Sort, op, a, b)
}
func bvcmp(op string, a, b T) T {
	if a.Sort != b.Sort {
		panic(fmt.Sprintf("%s: sort mismatch %s:%s vs %s:%s", op, a.S, a.Sort, b.S, b.Sort))
	}
	return app(SBool, op, a, b)
}
func litVal(t T) (uint64, bool) {
	if strings.HasPrefix(t.S, "#x") && !strings.Contains(t.S, " ") {
		var v uint64
		if _, err := fmt.Sscanf(t.S[2:], "%x", &v); err == nil {
			return v, true
		}
	}
	return 0, false
}
func add(a, b T) T {
	if a.Sort == b.Sort {
		va, oka := litVal(a)
		vb, okb := litVal(b)
		switch {
		case oka && okb:
			return bv(va+vb, sortWidth(a.Sort))
		case oka && va == 0:
			return b
		case okb && vb == 0:
			return a
		}
	}
	return bvbin("bvadd", a, b)
}
func sub(a, b T) T {
	if a.Sort == b.Sort {
		va, oka := litVal(a)
		vb, okb := litVal(b)
		switch {
		case oka && okb:
			return bv(va-vb, sortWidth(a.Sort))
		case okb && vb == 0:
			return a
		case a.S == b.S:
			return bv(0, sortWidth(a.Sort))
		}
	}
	return bvbin("bvsub", a, b)
}
func ule(a, b T) T { return bvcmp("bvule", a, b) }
func ult(a, b T) T { return bvcmp("bvult", a, b) }
func sle(a, b T) T { return bvcmp("bvsle", a, b) }
func slt(a, b T) T { return bvcmp("bvslt", a, b) }

func zext(t T, to int) T {
	w := sortWidth(t.Sort)
	if w == to {
		return t
	}
	if w > to {
		return T{fmt.Sprintf("((_ extract %d 0) %s)", to-1, t.S), bvSort(to)}
	}
	return T{fmt.Sprintf("((_ zero_extend %d) %s)", to-w, t.S), bvSort(to)}
}
func sext(t T, to int) T {
	w := sortWidth(t.Sort)
	if w == to {
		return t
	}
	if w > to {
		return T{fmt.Sprintf("((_ extract %d 0) %s)", to-1, t.S), bvSort(to)}
	}
	return T{fmt.Sprintf("((_ sign_extend %d) %s)", to-w, t.S), bvSort(to)}
}
func concat(hi, lo T) T {
	return T{"(concat " + hi.S + " " + lo.S + ")", bvSort(sortWidth(hi.Sort) + sortWidth(lo.Sort))}
}
func extract(t T, hi, lo int) T {
	return T{fmt.Sprintf("((_ extract %d %d) %s)", hi, lo, t.S), bvSort(hi - lo + 1)}
}

// ---------------------------------------------------------------- solving

type SolveResult struct {
	Status string // unsat | sat | unknown | timeout | error
	Solver string
	Ms     int64
	Output string // raw output of the winning (or last) solver
	Model  string
	Cube   []string // case-split assertions under which a counterexample was found
}

type solverSpec struct {
	name string
	argv func(file string, timeoutS int, seed int) []string
	pre  string // text to put before the query
	xf   func(query string) string // optional rewrite of the query text
}

func solverSpecs() []solverSpec {
	return []solverSpec{
		{"z3-5.1.0", func(f string, t, seed int) []string {
			return []string{"z3-new", fmt.Sprintf("-T:%d", t), fmt.Sprintf("smt.random_seed=%d", seed), f}
		}, "", nil},
		{"z3-4.8.12", func(f string, t, seed int) []string {
			return []string{"z3", fmt.Sprintf("-T:%d", t), fmt.Sprintf("smt.random_seed=%d", seed), f}
		}, "", nil},
		{"cvc5-1.0.3", func(f string, t, seed int) []string {
			return []string{"cvc5", "--enum-inst", fmt.Sprintf("--tlimit=%d", t*1000), fmt.Sprintf("--seed=%d", seed), f}
		}, "(set-option :produce-models true)\n(set-logic ALL)\n", nil},
		// int-blasting (Zohar et al., VMCAI 2022): exact translation of the
		// bit-vector goal to integers; decides the linear length/offset
		// arithmetic of decoders and encoders that bit-blasting does not.
		{"cvc5-1.0.3-intblast", func(f string, t, seed int) []string {
			return []string{"cvc5", "--solve-bv-as-int=sum", fmt.Sprintf("--tlimit=%d", t*1000), fmt.Sprintf("--seed=%d", seed), f}
		}, "(set-option :produce-models true)\n(set-logic ALL)\n", nil},
		// (z3's own int-blasting mode, smt.bv.solver=2, is NOT used: z3 5.1.0
		// answered unsat with it on cover queries that z3, z3 4.8.12 and cvc5
		// all find satisfiable)
		// z3 with an explicit bit-blasting pipeline (quantifier-free goals only;
		// anything else makes the tactic fail, which counts as "no answer")
		{"z3-5.1.0-bitblast", func(f string, t, seed int) []string {
			return []string{"z3-new", fmt.Sprintf("-T:%d", t), f}
		}, "", func(q string) string {
			return strings.Replace(q, "(check-sat)", "(check-sat-using (then simplify solve-eqs elim-uncnstr reduce-bv-size simplify bit-blast sat))", 1)
		}},
	}
}

// procSlots bounds the number of solver processes running at once (one per
// core), so that wall-clock timeouts keep their meaning under load.
var procSlots = make(chan struct{}, 16)

// solve races the installed solvers on one query. wantModel adds (get-model)
// handling: the winning solver's model text is returned when sat.
func solve(workdir, name, query string, timeoutS, seed int, only string) SolveResult {
	return solveCtx(context.Background(), workdir, name, query, timeoutS, seed, only)
}

// solveSliced races the query against its memory-free slice (slice.go): the
// slice may only prove (unsat); every other answer comes from the full query.
func solveSliced(workdir, name, query string, timeoutS, seed int) SolveResult {
	sq, ok := sliceQuery(query)
	if !ok {
		return solve(workdir, name, query, timeoutS, seed, "")
	}
	ctx, cancel := context.WithCancel(context.Background())
	defer cancel()
	full := make(chan SolveResult, 1)
	sl := make(chan SolveResult, 1)
	go func() { full <- solveCtx(ctx, workdir, name, query, timeoutS, seed, "") }()
	go func() { sl <- solveCtx(ctx, workdir, name+".sliced", sq, timeoutS, seed, "") }()
	for {
		select {
		case r := <-sl:
			if r.Status == "unsat" {
				r.Solver += "+sliced"
				return r
			}
			return <-full
		case r := <-full:
			if r.Status == "unsat" || r.Status == "sat" {
				return r
			}
			// undecided: the slice may still prove it
			r2 := <-sl
			if r2.Status == "unsat" {
				r2.Solver += "+sliced"
				return r2
			}
			return r
		}
	}
}

// Proof cache (opt-in, LSVC_CACHE=1; used by the must-fail corpus and seeded
// runs, never for committed evidence): a query that was unsat is unsat. Keyed
// by the exact query text, so only literally identical obligations hit it.
func cacheFile(query string) string {
	if os.Getenv("LSVC_CACHE") == "" {
		return ""
	}
	h := sha256.Sum256([]byte(query))
	return filepath.Join(verifDir, "work", "cache", hex.EncodeToString(h[:]))
}

func solveCtx(parent context.Context, workdir, name, query string, timeoutS, seed int, only string) SolveResult {
	cf := ""
	if only == "" {
		cf = cacheFile(query)
	}
	if cf != "" {
		if b, err := os.ReadFile(cf); err == nil {
			return SolveResult{Status: "unsat", Solver: "cache(" + strings.TrimSpace(string(b)) + ")"}
		}
	}
	r := solveCtx0(parent, workdir, name, query, timeoutS, seed, only)
	if cf != "" && r.Status == "unsat" {
		os.MkdirAll(filepath.Dir(cf), 0o755)
		os.WriteFile(cf, []byte(r.Solver), 0o644)
	}
	return r
}

func solveCtx0(parent context.Context, workdir, name, query string, timeoutS, seed int, only string) SolveResult {
	specs := solverSpecs()
	ctx, cancel := context.WithCancel(parent)
	defer cancel()
	type res struct {
		r SolveResult
	}
	ch := make(chan SolveResult, len(specs))
	var wg sync.WaitGroup
	n := 0
	for _, sp := range specs {
		if only != "" && (!strings.HasPrefix(sp.name, only) || sp.xf != nil || strings.HasSuffix(sp.name, "blast")) {
			continue
		}
		n++
		sp := sp
		wg.Add(1)
		go func() {
			defer wg.Done()
			file := filepath.Join(workdir, sanitize(name)+"."+sp.name+".smt2")
			body := sp.pre + query
			if sp.xf != nil {
				body = sp.pre + sp.xf(query)
			}
			if err := os.WriteFile(file, []byte(body), 0o644); err != nil {
				ch <- SolveResult{Status: "error", Solver: sp.name, Output: err.Error()}
				return
			}
			select {
			case procSlots <- struct{}{}:
			case <-ctx.Done():
				ch <- SolveResult{Status: "cancelled", Solver: sp.name}
				return
			}
			defer func() { <-procSlots }()
			t0 := time.Now()
			argv := sp.argv(file, timeoutS, seed)
			cmd := exec.CommandContext(ctx, argv[0], argv[1:]...)
			var out bytes.Buffer
			cmd.Stdout = &out
			cmd.Stderr = &out
			_ = cmd.Run()
			ms := time.Since(t0).Milliseconds()
			o := out.String()
			first := ""
			for _, ln := range strings.Split(o, "\n") {
				ln = strings.TrimSpace(ln)
				if ln == "" || strings.HasPrefix(ln, "WARNING") {
					continue
				}
				first = ln
				break
			}
			st := "unknown"
			switch {
			case strings.Contains(o, "(error"):
				st = "error"
			case first == "unsat":
				st = "unsat"
			case first == "sat":
				st = "sat"
			case strings.Contains(first, "timeout") || ms >= int64(timeoutS)*1000:
				st = "timeout"
			case strings.Contains(o, "error") && first != "unknown":
				st = "error"
			}
			ch <- SolveResult{Status: st, Solver: sp.name, Ms: ms, Output: o}
		}()
	}
	var last SolveResult
	var errs []string
	for i := 0; i < n; i++ {
		r := <-ch
		if r.Status == "unsat" || r.Status == "sat" {
			cancel()
			go func() { wg.Wait() }()
			if r.Status == "sat" {
				if idx := strings.Index(r.Output, "sat\n"); idx >= 0 {
					r.Model = r.Output[idx+4:]
				}
			}
			return r
		}
		if r.Status == "error" {
			errs = append(errs, r.Solver+": "+firstLines(r.Output, 3))
		}
		if r.Status == "cancelled" {
			continue
		}
		if last.Status == "" || r.Status == "timeout" || last.Status == "error" {
			last = r
		}
	}
	if len(errs) == n {
		last.Status = "error"
		last.Output = strings.Join(errs, "\n")
	}
	return last
}

func firstLines(s string, n int) string {
	ls := strings.Split(s, "\n")
	if len(ls) > n {
		ls = ls[:n]
	}
	return strings.Join(ls, " | ")
}

func sanitize(s string) string {
	var b strings.Builder
	for _, r := range s {
		switch {
		case r >= 'a' && r <= 'z', r >= 'A' && r <= 'Z', r >= '0' && r <= '9', r == '.', r == '-', r == '_':
			b.WriteRune(r)
		default:
			b.WriteByte('_')
		}
	}
	out := b.String()
	if len(out) > 150 {
		out = out[:150]
	}
	return out
}
