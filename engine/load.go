package main

import (
	"fmt"
	"go/ast"
	"go/token"
	"go/types"
	"os"
	"sort"
	"strings"

	"golang.org/x/tools/go/packages"
	"golang.org/x/tools/go/ssa"
	"golang.org/x/tools/go/ssa/ssautil"
)

const repoModule = "github.com/PowerDNS/lightningstream"

type Loader struct {
	RepoDir   string
	Fset      *token.FileSet
	Prog      *ssa.Program
	Pkgs      []*packages.Package
	SSAPkgs   map[string]*ssa.Package
	TypesPkgs map[string]*types.Package
	Contracts *ContractSet
	globIDs   map[*ssa.Global]uint64
	allFuncs  map[string]*ssa.Function
	LoadMs    int64
	Known     *knownSet
	privCache map[*ssa.Alloc]bool
	constGlob map[*ssa.Global]bool
	scanned   map[*ssa.Package]bool
}

func Load(repoDir, specDir string, patterns []string) (*Loader, error) {
	cfg := &packages.Config{
		Mode:       packages.LoadAllSyntax,
		Dir:        repoDir,
		BuildFlags: []string{"-tags=verif"},
		Env:        append(os.Environ(), "GOFLAGS=-mod=mod", "GOPROXY=off"),
	}
	pkgs, err := packages.Load(cfg, patterns...)
	if err != nil {
		return nil, err
	}
	var errs []string
	packages.Visit(pkgs, nil, func(p *packages.Package) {
		for _, e := range p.Errors {
			errs = append(errs, e.Error())
		}
	})
	if len(errs) > 0 {
		return nil, fmt.Errorf("package errors:\n%s", strings.Join(errs, "\n"))
	}
	prog, _ := ssautil.AllPackages(pkgs, ssa.NaiveForm|ssa.InstantiateGenerics)
	prog.Build()
	l := &Loader{RepoDir: repoDir, Prog: prog, Pkgs: pkgs, Fset: prog.Fset, SSAPkgs: map[string]*ssa.Package{}, TypesPkgs: map[string]*types.Package{},
		globIDs: map[*ssa.Global]uint64{}, allFuncs: map[string]*ssa.Function{}}
	for _, p := range prog.AllPackages() {
		l.SSAPkgs[p.Pkg.Path()] = p
		l.TypesPkgs[p.Pkg.Path()] = p.Pkg
	}
	for fn := range ssautil.AllFunctions(prog) {
		if fn.Pkg == nil && fn.Parent() == nil {
			// instantiations of generic functions and methods: one
			// representative per generic function (the first in name order)
			if fn.Origin() == nil || len(fn.Blocks) == 0 {
				continue
			}
			k := l.funcKeyFull(fn)
			if old, ok := l.allFuncs[k]; ok && old.String() <= fn.String() {
				continue
			}
			l.allFuncs[k] = fn
			continue
		}
		l.allFuncs[l.funcKeyFull(fn)] = fn
	}
	// methods of generic types that the program never instantiates (library
	// API): the generic body itself, type parameters treated as opaque
	for _, p := range prog.AllPackages() {
		if !strings.HasPrefix(p.Pkg.Path(), repoModule) {
			continue
		}
		sc := p.Pkg.Scope()
		for _, nm := range sc.Names() {
			tn, ok := sc.Lookup(nm).(*types.TypeName)
			if !ok {
				continue
			}
			named, ok := tn.Type().(*types.Named)
			if !ok || named.TypeParams().Len() == 0 {
				continue
			}
			for i := 0; i < named.NumMethods(); i++ {
				fn := prog.FuncValue(named.Method(i))
				if fn == nil || len(fn.Blocks) == 0 {
					continue
				}
				var add func(fn *ssa.Function)
				add = func(fn *ssa.Function) {
					k := l.funcKeyFull(fn)
					if _, ok := l.allFuncs[k]; !ok {
						l.allFuncs[k] = fn
					}
					for _, a := range fn.AnonFuncs {
						add(a)
					}
				}
				add(fn)
			}
		}
	}
	if os.Getenv("LSVC_DEBUG_FUNCS") != "" {
		for k := range l.allFuncs {
			if strings.Contains(k, os.Getenv("LSVC_DEBUG_FUNCS")) {
				fmt.Fprintln(os.Stderr, "func:", k)
			}
		}
	}
	cs, err := LoadContracts(repoDir, specDir)
	if err != nil {
		return nil, err
	}
	l.Contracts = cs
	l.Known = loadKnownFindings(verifDir + "/KNOWN_FINDINGS.txt")
	return l, nil
}

// funcKey: canonical key of a function within its package:
//   Name, (T).Name, (*T).Name, Name$1, (*T).Name$1
func funcKey(fn *ssa.Function) string {
	if fn.Parent() != nil {
		// anonymous function: parent's key + $n
		name := fn.Name() // e.g. LoadOnce$1
		pk := funcKey(fn.Parent())
		if i := strings.LastIndex(name, "$"); i >= 0 {
			return pk + name[i:]
		}
		return pk + "$" + name
	}
	if recv := fn.Signature.Recv(); recv != nil {
		t := recv.Type()
		star := ""
		if p, ok := t.(*types.Pointer); ok {
			t = p.Elem()
			star = "*"
		}
		tn := "?"
		if n, ok := t.(*types.Named); ok {
			tn = n.Obj().Name()
		}
		return "(" + star + tn + ")." + stripTypeArgs(fn.Name())
	}
	return stripTypeArgs(fn.Name())
}

// stripTypeArgs: "Publish[pkg.T]" -> "Publish" (instantiations share the
// generic function's contract)
func stripTypeArgs(n string) string {
	if i := strings.Index(n, "["); i >= 0 {
		return n[:i]
	}
	return n
}

func funcPkgPath(fn *ssa.Function) string {
	for fn.Parent() != nil {
		fn = fn.Parent()
	}
	if fn.Pkg != nil {
		return fn.Pkg.Pkg.Path()
	}
	if recv := fn.Signature.Recv(); recv != nil {
		t := recv.Type()
		if p, ok := t.(*types.Pointer); ok {
			t = p.Elem()
		}
		if n, ok := t.(*types.Named); ok && n.Obj().Pkg() != nil {
			return n.Obj().Pkg().Path()
		}
	}
	if o := fn.Object(); o != nil && o.Pkg() != nil {
		return o.Pkg().Path()
	}
	return ""
}

func (l *Loader) funcKeyFull(fn *ssa.Function) string { return funcPkgPath(fn) + "|" + funcKey(fn) }

// funcName is the display name used in obligation names: <pkgname>.<key>
func (l *Loader) funcName(fn *ssa.Function) string {
	pp := funcPkgPath(fn)
	short := pp
	if i := strings.LastIndex(pp, "/"); i >= 0 {
		short = pp[i+1:]
	}
	return short + "." + funcKey(fn)
}

func (l *Loader) contractOf(fn *ssa.Function) *Contract {
	if fn == nil {
		return nil
	}
	// generic instantiations share the origin's contract
	if o := fn.Origin(); o != nil {
		fn = o
	}
	return l.Contracts.ByKey[l.funcKeyFull(fn)]
}

func (l *Loader) findFunc(pkgPath, key string) *ssa.Function {
	return l.allFuncs[pkgPath+"|"+key]
}

func (l *Loader) globalID(g *ssa.Global) uint64 {
	if id, ok := l.globIDs[g]; ok {
		return id
	}
	id := uint64(0x7000_0000_0000_0000) + uint64(len(l.globIDs)+1)
	l.globIDs[g] = id
	return id
}

// globalConst: package-level variables with a value fixed by the platform.
func (l *Loader) globalConst(g *ssa.Global) (Val, bool) {
	if g.Pkg.Pkg.Path() == repoModule+"/lmdbenv/strategy" && g.Name() == "isLittleEndian" {
		return Sc{tTrue}, true // amd64 / arm64 (DESIGN 2.1)
	}
	return nil, false
}

// globalIsConst: no function other than a package initialiser stores to g
// (package-level sentinel errors and tables).
func (l *Loader) globalIsConst(g *ssa.Global) bool {
	if l.constGlob == nil {
		l.constGlob = map[*ssa.Global]bool{}
		l.scanned = map[*ssa.Package]bool{}
	}
	if !l.scanned[g.Pkg] {
		l.scanned[g.Pkg] = true
		for _, m := range g.Pkg.Members {
			if gg, ok := m.(*ssa.Global); ok {
				l.constGlob[gg] = true
			}
		}
		for _, fn := range l.allFuncs {
			root := fn
			for root.Parent() != nil {
				root = root.Parent()
			}
			if fn.Pkg != g.Pkg && root.Pkg != g.Pkg {
				continue
			}
			if root.Name() == "init" || strings.HasPrefix(root.Name(), "init#") {
				continue
			}
			for _, b := range fn.Blocks {
				for _, in := range b.Instrs {
					if st, ok := in.(*ssa.Store); ok {
						if gg := rootGlobal(st.Addr); gg != nil {
							l.constGlob[gg] = false
						}
					}
				}
			}
		}
	}
	return l.constGlob[g]
}

func rootGlobal(v ssa.Value) *ssa.Global {
	for {
		switch x := v.(type) {
		case *ssa.Global:
			return x
		case *ssa.FieldAddr:
			v = x.X
		case *ssa.IndexAddr:
			v = x.X
		default:
			return nil
		}
	}
}

func (l *Loader) globalByObj(o *types.Var) *ssa.Global {
	if o.Pkg() == nil {
		return nil
	}
	p := l.SSAPkgs[o.Pkg().Path()]
	if p == nil {
		return nil
	}
	g, _ := p.Members[o.Name()].(*ssa.Global)
	return g
}

func (l *Loader) pkgByName(name string) *types.Package {
	var cands []string
	for path, p := range l.TypesPkgs {
		if p.Name() == name {
			cands = append(cands, path)
		}
	}
	if len(cands) == 0 {
		return nil
	}
	sort.Slice(cands, func(i, j int) bool {
		ri, rj := strings.HasPrefix(cands[i], repoModule), strings.HasPrefix(cands[j], repoModule)
		if ri != rj {
			return ri
		}
		return len(cands[i]) < len(cands[j])
	})
	return l.TypesPkgs[cands[0]]
}

// syntaxLoops returns the for/range statements of fn in source order
// (function literals excluded).
func syntaxLoops(fn *ssa.Function) []ast.Stmt {
	var body *ast.BlockStmt
	switch s := fn.Syntax().(type) {
	case *ast.FuncDecl:
		body = s.Body
	case *ast.FuncLit:
		body = s.Body
	}
	if body == nil {
		return nil
	}
	var out []ast.Stmt
	ast.Inspect(body, func(n ast.Node) bool {
		switch s := n.(type) {
		case *ast.FuncLit:
			return false
		case *ast.ForStmt:
			out = append(out, s)
		case *ast.RangeStmt:
			out = append(out, s)
		}
		return true
	})
	return out
}

func (l *Loader) typesInfoFor(fn *ssa.Function) (*types.Package, *types.Info) {
	pp := funcPkgPath(fn)
	var res *packages.Package
	packages.Visit(l.Pkgs, nil, func(p *packages.Package) {
		if p.PkgPath == pp {
			res = p
		}
	})
	if res == nil {
		return nil, nil
	}
	return res.Types, res.TypesInfo
}


// privateAlloc: a variable go/ssa allocates on the heap (captured by a closure
// or address-taken) whose address nevertheless only flows into loads, stores,
// field/index address computations and bindings of closures (recursively).
// No callee can reach it, so it is kept as a cell (DESIGN 4.3, 4.6).
func (l *Loader) privateAlloc(a *ssa.Alloc) bool {
	if l.privCache == nil {
		l.privCache = map[*ssa.Alloc]bool{}
	}
	if v, ok := l.privCache[a]; ok {
		return v
	}
	seen := map[ssa.Value]bool{}
	var ok func(v ssa.Value) bool
	ok = func(v ssa.Value) bool {
		if seen[v] {
			return true
		}
		seen[v] = true
		refs := v.Referrers()
		if refs == nil {
			return false
		}
		for _, r := range *refs {
			switch x := r.(type) {
			case *ssa.Store:
				if x.Val == v {
					return false // the address itself is stored somewhere
				}
			case *ssa.UnOp:
				if x.Op != token.MUL {
					return false
				}
			case *ssa.FieldAddr:
				if !ok(x) {
					return false
				}
			case *ssa.IndexAddr:
				if !ok(x) {
					return false
				}
			case *ssa.DebugRef:
			case *ssa.MakeClosure:
				fn := x.Fn.(*ssa.Function)
				for i, b := range x.Bindings {
					if b == v {
						if i >= len(fn.FreeVars) || !ok(fn.FreeVars[i]) {
							return false
						}
					}
				}
			default:
				return false
			}
		}
		return true
	}
	res := ok(a)
	l.privCache[a] = res
	return res
}
