#!/bin/sh
# Builds the verifier (bin/lsvc) from /verif/engine, offline.
set -e
cd "$(dirname "$0")"
. ./env.sh
mkdir -p bin work evidence replays
(cd engine && go build -o ../bin/lsvc .)
echo "lsvc built"
