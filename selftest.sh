#!/bin/bash
# Must-fail corpus: every seeded change under seeded/ that is marked as
# detected is applied to a scratch worktree of /repo (outside /repo and /verif,
# removed afterwards) and the listed checks must report a violation; the
# unchanged worktree must report none. Run after every engine change.
# usage: ./selftest.sh [seed-id-prefix]
cd "$(dirname "$0")"
. ./env.sh 2>/dev/null
export LSVC_CACHE=1
WT=$(mktemp -d /tmp/lsvc-selftest.XXXXXX)
rmdir "$WT"
git -C /repo worktree add -q --detach "$WT" HEAD || exit 2
cleanup() { git -C /repo worktree remove --force "$WT" 2>/dev/null; rm -rf "$WT"; }
trap cleanup EXIT
fail=0; n=0
for d in seeded/${1:-}*/; do
  id=$(basename "$d")
  read -r res props < <(python3 - "$d/meta.json" <<'PY'
import json,sys
m=json.load(open(sys.argv[1]))
r=m.get('verif_result','')
print('yes' if r.startswith('detected') else 'no', ' '.join(m.get('verif_props') or [m['property']]))
PY
)
  [ "$res" = yes ] || { echo "SKIP  $id (recorded as not detected)"; continue; }
  (cd "$WT" && git checkout -q -- . && git clean -fdq && git apply "$OLDPWD/$d/patch.diff") || { echo "FAIL  $id: patch does not apply"; fail=1; continue; }
  hit=no
  for p in $props; do
    out=$(bin/lsvc check --property "$p" --repo "$WT" --no-replay 2>&1)
    if echo "$out" | grep -q "^VIOLATION property=$p"; then hit="$p"; break; fi
  done
  n=$((n+1))
  if [ "$hit" = no ]; then echo "FAIL  $id: no violation reported by: $props"; fail=1; else echo "ok    $id ($hit)"; fi
done
(cd "$WT" && git checkout -q -- . && git clean -fdq)
echo "$n seeded changes checked"
exit $fail
